/-
Accuracy of `hypot` (three branches: |x| = |y|, the tiny-ratio correction, the main formula) over ℚ with an abstract
round-to-nearest and an abstract correctly-rounded square root.  The bound is stated on squares, so no real numbers
are needed:   (1−u)^7 (x²+y²) ≤ H² ≤ (1+u)^7 (x²+y²),  i.e.  |H/√(x²+y²) − 1| < 3.51 u  (< 4 ULP).
-/
import FAVerif.Lemmas.RelErr
import FAVerif.Lemmas.ExpRed
import FAVerif.IR.EvalQS
import FAVerif.Models.Hypot
import FAVerif.Lemmas.EFT

namespace FAVerif.FPQ

/-- a square root with relative error at most u = 2^−p (what a correctly rounded square root gives in the normal
range — and square roots of representable numbers are always in the normal range), specified through squares -/
structure SqrtOK (f : QFmt) (S : ℚ → ℚ) : Prop where
  nonneg : ∀ t, 0 ≤ t → 0 ≤ S t
  lo : ∀ t, 0 ≤ t → (1 - uro f) ^ 2 * t ≤ S t ^ 2
  hi : ∀ t, 0 ≤ t → S t ^ 2 ≤ (1 + uro f) ^ 2 * t

section arith
variable {u η : ℚ}

/-- upper bound of the computed squared ratio -/
lemma rr_upper (hu0 : 0 ≤ u) (hu : u ≤ 1 / 256) (hη0 : 0 ≤ η) (hη : η ≤ 1 / 8) {w q rr : ℚ} (hw0 : 0 ≤ w) (hw1 : w ≤ 1)
    (hq0 : 0 ≤ q) (hq : q ≤ w * (1 + u) + η) (hrr : rr ≤ q ^ 2 * (1 + u) + η) : rr ≤ w ^ 2 * (1 + u) ^ 3 + 4 * η := by
  have h1 : q ^ 2 ≤ (w * (1 + u) + η) ^ 2 := by
    apply pow_le_pow_left₀ hq0 hq
  have h2 : rr ≤ (w * (1 + u) + η) ^ 2 * (1 + u) + η := by
    have : q ^ 2 * (1 + u) ≤ (w * (1 + u) + η) ^ 2 * (1 + u) := mul_le_mul_of_nonneg_right h1 (by linarith)
    linarith
  have e : (w * (1 + u) + η) ^ 2 * (1 + u) + η = w ^ 2 * (1 + u) ^ 3 + η * (2 * w * (1 + u) ^ 2 + η * (1 + u) + 1) := by ring
  rw [e] at h2
  have h3 : 2 * w * (1 + u) ^ 2 + η * (1 + u) + 1 ≤ 4 := by
    have a1 : (1 + u) ^ 2 ≤ 41 / 40 := by nlinarith
    have a2 : 2 * w * (1 + u) ^ 2 ≤ 2 * 1 * (41 / 40) := by
      apply mul_le_mul (by linarith) a1 (by positivity) (by norm_num)
    have a3 : η * (1 + u) ≤ 1 / 8 * (1 + 1 / 256) := by
      apply mul_le_mul hη (by linarith) (by linarith) (by norm_num)
    linarith
  have := mul_le_mul_of_nonneg_left h3 hη0
  linarith

/-- lower bound of the computed squared ratio -/
lemma rr_lower (hu0 : 0 ≤ u) (hu : u ≤ 1 / 256) (hη0 : 0 ≤ η) {w q rr : ℚ} (hw0 : 0 ≤ w) (hw1 : w ≤ 1)
    (hq0 : 0 ≤ q) (hq : w * (1 - u) - η ≤ q) (hrr : q ^ 2 * (1 - u) - η ≤ rr) : w ^ 2 * (1 - u) ^ 3 - 3 * η ≤ rr := by
  have h1 : w ^ 2 * (1 - u) ^ 2 - 2 * η ≤ q ^ 2 := by
    by_cases hc : η ≤ w * (1 - u)
    · have : (w * (1 - u) - η) ^ 2 ≤ q ^ 2 := pow_le_pow_left₀ (by linarith) hq 2
      have hw' : w * (1 - u) ≤ 1 := by nlinarith
      nlinarith [sq_nonneg η]
    · push Not at hc
      have hwu : 0 ≤ w * (1 - u) := mul_nonneg hw0 (by linarith)
      have : w ^ 2 * (1 - u) ^ 2 = (w * (1 - u)) * (w * (1 - u)) := by ring
      have h' : (w * (1 - u)) * (w * (1 - u)) ≤ η * 1 := by
        apply mul_le_mul hc.le (by nlinarith) hwu hη0
      nlinarith [sq_nonneg q]
  have h2 : (w ^ 2 * (1 - u) ^ 2 - 2 * η) * (1 - u) ≤ q ^ 2 * (1 - u) := mul_le_mul_of_nonneg_right h1 (by linarith)
  nlinarith

/-- upper bound of t = RN(1 + rr) -/
lemma t_upper (hu0 : 0 ≤ u) (hu : u ≤ 1 / 256) (hη0 : 0 ≤ η) (hη : η ≤ u ^ 2 / 8) {ρ rr t : ℚ} (hρ0 : 0 ≤ ρ) (hρ1 : ρ ≤ 1)
    (hrr : rr ≤ ρ * (1 + u) ^ 3 + 4 * η) (ht : t ≤ (1 + rr) * (1 + u)) : t ≤ (1 + ρ) * (1 + u) ^ 3 := by
  have h1 : 1 + rr ≤ (1 + ρ) * (1 + u) ^ 2 := by
    have : (1 + ρ) * (1 + u) ^ 2 - (1 + ρ * (1 + u) ^ 3) = 2 * u + u ^ 2 - ρ * u * (1 + u) ^ 2 := by ring
    have h2 : ρ * u * (1 + u) ^ 2 ≤ 1 * u * (1 + u) ^ 2 := by
      apply mul_le_mul_of_nonneg_right _ (by positivity)
      exact mul_le_mul_of_nonneg_right hρ1 hu0
    have h3 : u * (1 + u) ^ 2 ≤ u * (1 + 3 * u) := by
      apply mul_le_mul_of_nonneg_left _ hu0
      nlinarith
    nlinarith
  have := mul_le_mul_of_nonneg_right h1 (by linarith : (0:ℚ) ≤ 1 + u)
  calc t ≤ (1 + rr) * (1 + u) := ht
    _ ≤ (1 + ρ) * (1 + u) ^ 2 * (1 + u) := this
    _ = (1 + ρ) * (1 + u) ^ 3 := by ring

lemma t_lower (hu0 : 0 ≤ u) (hu : u ≤ 1 / 256) (hη0 : 0 ≤ η) (hη : η ≤ u ^ 2 / 8) {ρ rr t : ℚ} (hρ0 : 0 ≤ ρ) (hρ1 : ρ ≤ 1)
    (hrr : ρ * (1 - u) ^ 3 - 3 * η ≤ rr) (ht : (1 + rr) * (1 - u) ≤ t) : (1 + ρ) * (1 - u) ^ 3 ≤ t := by
  have h1 : (1 + ρ) * (1 - u) ^ 2 ≤ 1 + rr := by
    have : (1 + ρ * (1 - u) ^ 3) - (1 + ρ) * (1 - u) ^ 2 = 2 * u - u ^ 2 - ρ * u * (1 - u) ^ 2 := by ring
    have h2 : ρ * u * (1 - u) ^ 2 ≤ 1 * u * 1 := by
      apply mul_le_mul (mul_le_mul_of_nonneg_right hρ1 hu0) _ (by positivity) (by linarith)
      nlinarith
    nlinarith
  have := mul_le_mul_of_nonneg_right h1 (by linarith : (0:ℚ) ≤ 1 - u)
  calc (1 + ρ) * (1 - u) ^ 3 = (1 + ρ) * (1 - u) ^ 2 * (1 - u) := by ring
    _ ≤ (1 + rr) * (1 - u) := this
    _ ≤ t := ht


lemma pow_bounds (hu0 : 0 ≤ u) (hu : u ≤ 1 / 256) :
    1 + 5 * u ≤ (1 + u) ^ 5 ∧ (1 + u) ^ 5 ≤ 51 / 50 ∧ (1 - u) ^ 5 ≤ 1 - 5 * u + 10 * u ^ 2 ∧ 0 ≤ (1 - u) ^ 5 ∧ (1 - u) ^ 5 ≤ 1 := by
  have h1 : (1 + u) ^ 5 = 1 + 5 * u + (10 * u ^ 2 + 10 * u ^ 3 + 5 * u ^ 4 + u ^ 5) := by ring
  have h2 : (1 - u) ^ 5 = 1 - 5 * u + 10 * u ^ 2 - u ^ 3 * (10 - 5 * u + u ^ 2) := by ring
  have u2 : u ^ 2 ≤ u / 256 := by nlinarith
  have u3 : u ^ 3 ≤ u / 256 := by nlinarith [sq_nonneg u]
  have u4 : u ^ 4 ≤ u / 256 := by nlinarith [sq_nonneg u, pow_nonneg hu0 3]
  have u5 : u ^ 5 ≤ u / 256 := by nlinarith [sq_nonneg u, pow_nonneg hu0 3, pow_nonneg hu0 4]
  have p2 := pow_nonneg hu0 2
  have p3 := pow_nonneg hu0 3
  have p4 := pow_nonneg hu0 4
  have p5 := pow_nonneg hu0 5
  refine ⟨by rw [h1]; linarith, by rw [h1]; linarith, ?_, pow_nonneg (by linarith) 5, pow_le_one₀ (by linarith) (by linarith)⟩
  rw [h2]
  have : 0 ≤ u ^ 3 * (10 - 5 * u + u ^ 2) := mul_nonneg p3 (by nlinarith)
  linarith

/-- branch A: (1 + u + u² + ρ(1+u)^5/2)² ≤ (1+ρ)(1+u)^5 -/
lemma brA_sq_upper (hu0 : 0 ≤ u) (hu : u ≤ 1 / 256) {ρ : ℚ} (hρ0 : 0 ≤ ρ) (hρ : ρ ≤ 5 * u) :
    (1 + u + u ^ 2 + ρ * (1 + u) ^ 5 / 2) ^ 2 ≤ (1 + ρ) * (1 + u) ^ 5 := by
  obtain ⟨hE1, hE2, -, -, -⟩ := pow_bounds hu0 hu
  set E := (1 + u) ^ 5 with hE
  set c := ρ * E / 2 with hc
  have hc0 : 0 ≤ c := by positivity
  have hc3 : c ≤ 3 * u := by
    have : ρ * E ≤ 5 * u * (51 / 50) := mul_le_mul hρ hE2 (by positivity) (by linarith)
    rw [hc]; linarith
  have k1 : 2 * c * (u + u ^ 2) ≤ 2 * (3 * u) * (u + u ^ 2) := by
    apply mul_le_mul_of_nonneg_right (by linarith) (by positivity)
  have k2 : c ^ 2 ≤ (3 * u) ^ 2 := pow_le_pow_left₀ hc0 hc3 2
  have e1 : (1 + u + u ^ 2 + c) ^ 2 = (1 + u + u ^ 2) ^ 2 + 2 * c + 2 * c * (u + u ^ 2) + c ^ 2 := by ring
  have e2 : (1 + ρ) * E = E + 2 * c := by rw [hc]; ring
  rw [e1, e2]
  have u2 : u ^ 2 ≤ u / 256 := by nlinarith
  have u3 : u ^ 3 ≤ u / 256 := by nlinarith [sq_nonneg u]
  have u4 : u ^ 4 ≤ u / 256 := by nlinarith [sq_nonneg u, pow_nonneg hu0 3]
  nlinarith

/-- branch A: (1 − u − u² + ρ(1−u)^5/2)² ≥ (1+ρ)(1−u)^5 -/
lemma brA_sq_lower (hu0 : 0 ≤ u) (hu : u ≤ 1 / 256) {ρ : ℚ} (hρ0 : 0 ≤ ρ) (hρ : ρ ≤ 5 * u) :
    (1 + ρ) * (1 - u) ^ 5 ≤ (1 - u - u ^ 2 + ρ * (1 - u) ^ 5 / 2) ^ 2 := by
  obtain ⟨-, -, hF1, hF0, hF2⟩ := pow_bounds hu0 hu
  set F := (1 - u) ^ 5 with hF
  set c := ρ * F / 2 with hc
  have hc0 : 0 ≤ c := by positivity
  have hc3 : c ≤ 5 * u / 2 := by
    have : ρ * F ≤ 5 * u * 1 := mul_le_mul hρ hF2 hF0 (by linarith)
    rw [hc]; linarith
  have k1 : 2 * c * (u + u ^ 2) ≤ 2 * (5 * u / 2) * (u + u ^ 2) := by
    apply mul_le_mul_of_nonneg_right (by linarith) (by positivity)
  have e1 : (1 - u - u ^ 2 + c) ^ 2 = (1 - u - u ^ 2) ^ 2 + 2 * c - 2 * c * (u + u ^ 2) + c ^ 2 := by ring
  have e2 : (1 + ρ) * F = F + 2 * c := by rw [hc]; ring
  rw [e1, e2]
  have u2 : u ^ 2 ≤ u / 256 := by nlinarith
  have u3 : u ^ 3 ≤ u / 256 := by nlinarith [sq_nonneg u]
  have e3 : (1 - u - u ^ 2) ^ 2 = 1 - 2 * u - u ^ 2 + 2 * u ^ 3 + u ^ 4 := by ring
  have p3 := pow_nonneg hu0 3
  have p4 := pow_nonneg hu0 4
  nlinarith [sq_nonneg c]

/-- branch A: the sum v = p2 + mx from above -/
lemma brA_v_upper (hu0 : 0 ≤ u) (hu : u ≤ 1 / 256) (hη0 : 0 ≤ η) (hη : η ≤ u ^ 2 / 8) {ρ rr mx p1 p2 : ℚ}
    (hmx : 0 < mx) (hηm : 2 * η ≤ u * mx) (hρ0 : 0 ≤ ρ) (hrr0 : 0 ≤ rr) (hrr : rr ≤ ρ * (1 + u) ^ 3 + 4 * η)
    (hp1 : p1 ≤ mx * rr * (1 + u) + η) (hp2 : p2 ≤ p1 / 2 * (1 + u) + η) :
    p2 + mx ≤ mx * (1 + u + u ^ 2 + ρ * (1 + u) ^ 5 / 2) := by
  have h1 : p1 / 2 * (1 + u) ≤ (mx * rr * (1 + u) + η) / 2 * (1 + u) := by
    apply mul_le_mul_of_nonneg_right (by linarith) (by linarith)
  have h2 : p2 ≤ mx * rr * (1 + u) ^ 2 / 2 + 2 * η := by
    have : (mx * rr * (1 + u) + η) / 2 * (1 + u) = mx * rr * (1 + u) ^ 2 / 2 + η * ((1 + u) / 2) := by ring
    have h3 : η * ((1 + u) / 2) ≤ η * 1 := mul_le_mul_of_nonneg_left (by linarith) hη0
    linarith
  have h4 : rr * (1 + u) ^ 2 / 2 ≤ ρ * (1 + u) ^ 5 / 2 + u ^ 2 := by
    have a : rr * (1 + u) ^ 2 ≤ (ρ * (1 + u) ^ 3 + 4 * η) * (1 + u) ^ 2 := mul_le_mul_of_nonneg_right hrr (by positivity)
    have b : (ρ * (1 + u) ^ 3 + 4 * η) * (1 + u) ^ 2 = ρ * (1 + u) ^ 5 + 4 * η * (1 + u) ^ 2 := by ring
    have c1 : (1 + u) ^ 2 ≤ 41 / 40 := by nlinarith
    have c : 4 * η * (1 + u) ^ 2 ≤ 4 * (u ^ 2 / 8) * (41 / 40) := by
      apply mul_le_mul (by linarith) c1 (by positivity) (by positivity)
    nlinarith [sq_nonneg u]
  have h5 : mx * (rr * (1 + u) ^ 2 / 2) ≤ mx * (ρ * (1 + u) ^ 5 / 2 + u ^ 2) := mul_le_mul_of_nonneg_left h4 hmx.le
  nlinarith

lemma brA_v_lower (hu0 : 0 ≤ u) (hu : u ≤ 1 / 256) (hη0 : 0 ≤ η) (hη : η ≤ u ^ 2 / 8) {ρ rr mx p1 p2 : ℚ}
    (hmx : 0 < mx) (hηm : 2 * η ≤ u * mx) (hρ0 : 0 ≤ ρ) (hρ1 : ρ ≤ 1) (hrr0 : 0 ≤ rr) (hrr : ρ * (1 - u) ^ 3 - 3 * η ≤ rr)
    (hp1 : mx * rr * (1 - u) - η ≤ p1) (hp2 : p1 / 2 * (1 - u) - η ≤ p2) :
    mx * (1 - u - u ^ 2 + ρ * (1 - u) ^ 5 / 2) ≤ p2 + mx := by
  have h1 : (mx * rr * (1 - u) - η) / 2 * (1 - u) ≤ p1 / 2 * (1 - u) := by
    apply mul_le_mul_of_nonneg_right (by linarith) (by linarith)
  have h2 : mx * rr * (1 - u) ^ 2 / 2 - 2 * η ≤ p2 := by
    have : (mx * rr * (1 - u) - η) / 2 * (1 - u) = mx * rr * (1 - u) ^ 2 / 2 - η * ((1 - u) / 2) := by ring
    have h3 : η * ((1 - u) / 2) ≤ η * 1 := mul_le_mul_of_nonneg_left (by linarith) hη0
    linarith
  have h4 : ρ * (1 - u) ^ 5 / 2 - u ^ 2 ≤ rr * (1 - u) ^ 2 / 2 := by
    have a : (ρ * (1 - u) ^ 3 - 3 * η) * (1 - u) ^ 2 ≤ rr * (1 - u) ^ 2 := mul_le_mul_of_nonneg_right hrr (by positivity)
    have b : (ρ * (1 - u) ^ 3 - 3 * η) * (1 - u) ^ 2 = ρ * (1 - u) ^ 5 - 3 * η * (1 - u) ^ 2 := by ring
    have c1 : (1 - u) ^ 2 ≤ 1 := pow_le_one₀ (by linarith) (by linarith)
    have c : 3 * η * (1 - u) ^ 2 ≤ 3 * (u ^ 2 / 8) * 1 := by
      apply mul_le_mul (by linarith) c1 (by positivity) (by positivity)
    nlinarith [sq_nonneg u]
  have h5 : mx * (ρ * (1 - u) ^ 5 / 2 - u ^ 2) ≤ mx * (rr * (1 - u) ^ 2 / 2) := mul_le_mul_of_nonneg_left h4 hmx.le
  nlinarith


/-- facts shared by the two branches with |x| ≠ |y| -/
lemma ratio_facts {mx mn : ℚ} (hmn0 : 0 ≤ mn) (hmnx : mn ≤ mx) (hmxpos : 0 < mx) :
    0 ≤ mn / mx ∧ mn / mx ≤ 1 ∧ 0 ≤ (mn / mx) ^ 2 ∧ (mn / mx) ^ 2 ≤ 1 ∧ mx ^ 2 + mn ^ 2 = mx ^ 2 * (1 + (mn / mx) ^ 2) := by
  have hw0 : 0 ≤ mn / mx := div_nonneg hmn0 hmxpos.le
  have hw1 : mn / mx ≤ 1 := by rw [div_le_one hmxpos]; exact hmnx
  refine ⟨hw0, hw1, sq_nonneg _, pow_le_one₀ hw0 hw1, ?_⟩
  field_simp

lemma sigma_ge_one (hu0 : 0 < u) (hu : u ≤ 1 / 256) {σ2 : ℚ} (hσ0 : 0 ≤ σ2) (hσlo : (1 - u) ^ 2 * 2 ≤ σ2 ^ 2) : 1 ≤ σ2 := by
  by_contra hcon
  push Not at hcon
  have : σ2 ^ 2 < 1 := by nlinarith
  have : (1 - u) ^ 2 * 2 ≥ 1 := by nlinarith
  linarith

/-- branch |x| = |y| -/
lemma br_eq (hu0 : 0 < u) (hu : u ≤ 1 / 256) {σ2 mx H : ℚ} (hσ0 : 0 ≤ σ2) (hσlo : (1 - u) ^ 2 * 2 ≤ σ2 ^ 2)
    (hσhi : σ2 ^ 2 ≤ (1 + u) ^ 2 * 2) (hmx : 0 < mx) (hH1 : σ2 * mx * (1 - u) ≤ H) (hH2 : H ≤ σ2 * mx * (1 + u)) :
    0 ≤ H ∧ (1 - u) ^ 7 * (mx ^ 2 + mx ^ 2) ≤ H ^ 2 ∧ H ^ 2 ≤ (1 + u) ^ 7 * (mx ^ 2 + mx ^ 2) := by
  have h1u : 0 < 1 - u := by linarith
  have hH0 : 0 ≤ H := le_trans (by positivity) hH1
  refine ⟨hH0, ?_, ?_⟩
  · have a : (σ2 * mx * (1 - u)) ^ 2 ≤ H ^ 2 := pow_le_pow_left₀ (by positivity) hH1 2
    have b : (1 - u) ^ 2 * 2 * (mx ^ 2 * (1 - u) ^ 2) ≤ σ2 ^ 2 * (mx ^ 2 * (1 - u) ^ 2) :=
      mul_le_mul_of_nonneg_right hσlo (by positivity)
    have c : (1 - u) ^ 7 ≤ (1 - u) ^ 4 := pow_le_pow_of_le_one h1u.le (by linarith) (by norm_num)
    have d : (1 - u) ^ 7 * (mx ^ 2 * 2) ≤ (1 - u) ^ 4 * (mx ^ 2 * 2) := mul_le_mul_of_nonneg_right c (by positivity)
    calc (1 - u) ^ 7 * (mx ^ 2 + mx ^ 2) = (1 - u) ^ 7 * (mx ^ 2 * 2) := by ring
      _ ≤ (1 - u) ^ 4 * (mx ^ 2 * 2) := d
      _ = (1 - u) ^ 2 * 2 * (mx ^ 2 * (1 - u) ^ 2) := by ring
      _ ≤ σ2 ^ 2 * (mx ^ 2 * (1 - u) ^ 2) := b
      _ = (σ2 * mx * (1 - u)) ^ 2 := by ring
      _ ≤ H ^ 2 := a
  · have a : H ^ 2 ≤ (σ2 * mx * (1 + u)) ^ 2 := pow_le_pow_left₀ hH0 hH2 2
    have b : σ2 ^ 2 * (mx ^ 2 * (1 + u) ^ 2) ≤ (1 + u) ^ 2 * 2 * (mx ^ 2 * (1 + u) ^ 2) :=
      mul_le_mul_of_nonneg_right hσhi (by positivity)
    have c : (1 + u) ^ 4 ≤ (1 + u) ^ 7 := pow_le_pow_right₀ (by linarith) (by norm_num)
    have d : (1 + u) ^ 4 * (mx ^ 2 * 2) ≤ (1 + u) ^ 7 * (mx ^ 2 * 2) := mul_le_mul_of_nonneg_right c (by positivity)
    calc H ^ 2 ≤ (σ2 * mx * (1 + u)) ^ 2 := a
      _ = σ2 ^ 2 * (mx ^ 2 * (1 + u) ^ 2) := by ring
      _ ≤ (1 + u) ^ 2 * 2 * (mx ^ 2 * (1 + u) ^ 2) := b
      _ = (1 + u) ^ 4 * (mx ^ 2 * 2) := by ring
      _ ≤ (1 + u) ^ 7 * (mx ^ 2 * 2) := d
      _ = (1 + u) ^ 7 * (mx ^ 2 + mx ^ 2) := by ring

/-- main branch: H = RN(mx · sqrt(t)) -/
lemma br_main (hu0 : 0 < u) (hu : u ≤ 1 / 256) {ρ t s mx H : ℚ} (hρ0 : 0 ≤ ρ) (hmx : 0 < mx)
    (htL : (1 + ρ) * (1 - u) ^ 3 ≤ t) (htU : t ≤ (1 + ρ) * (1 + u) ^ 3) (hs0 : 0 ≤ s)
    (hsL : (1 - u) ^ 2 * t ≤ s ^ 2) (hsU : s ^ 2 ≤ (1 + u) ^ 2 * t)
    (hH1 : s * mx * (1 - u) ≤ H) (hH2 : H ≤ s * mx * (1 + u)) :
    0 ≤ H ∧ (1 - u) ^ 7 * (mx ^ 2 * (1 + ρ)) ≤ H ^ 2 ∧ H ^ 2 ≤ (1 + u) ^ 7 * (mx ^ 2 * (1 + ρ)) := by
  have h1u : 0 < 1 - u := by linarith
  have hH0 : 0 ≤ H := le_trans (by positivity) hH1
  refine ⟨hH0, ?_, ?_⟩
  · have a : (s * mx * (1 - u)) ^ 2 ≤ H ^ 2 := pow_le_pow_left₀ (by positivity) hH1 2
    have b : (1 - u) ^ 2 * ((1 + ρ) * (1 - u) ^ 3) ≤ (1 - u) ^ 2 * t := mul_le_mul_of_nonneg_left htL (by positivity)
    have c : (1 - u) ^ 2 * ((1 + ρ) * (1 - u) ^ 3) * (mx ^ 2 * (1 - u) ^ 2) ≤ s ^ 2 * (mx ^ 2 * (1 - u) ^ 2) :=
      mul_le_mul_of_nonneg_right (le_trans b hsL) (by positivity)
    calc (1 - u) ^ 7 * (mx ^ 2 * (1 + ρ)) = (1 - u) ^ 2 * ((1 + ρ) * (1 - u) ^ 3) * (mx ^ 2 * (1 - u) ^ 2) := by ring
      _ ≤ s ^ 2 * (mx ^ 2 * (1 - u) ^ 2) := c
      _ = (s * mx * (1 - u)) ^ 2 := by ring
      _ ≤ H ^ 2 := a
  · have a : H ^ 2 ≤ (s * mx * (1 + u)) ^ 2 := pow_le_pow_left₀ hH0 hH2 2
    have b : (1 + u) ^ 2 * t ≤ (1 + u) ^ 2 * ((1 + ρ) * (1 + u) ^ 3) := mul_le_mul_of_nonneg_left htU (by positivity)
    have c : s ^ 2 * (mx ^ 2 * (1 + u) ^ 2) ≤ (1 + u) ^ 2 * ((1 + ρ) * (1 + u) ^ 3) * (mx ^ 2 * (1 + u) ^ 2) :=
      mul_le_mul_of_nonneg_right (le_trans hsU b) (by positivity)
    calc H ^ 2 ≤ (s * mx * (1 + u)) ^ 2 := a
      _ = s ^ 2 * (mx ^ 2 * (1 + u) ^ 2) := by ring
      _ ≤ (1 + u) ^ 2 * ((1 + ρ) * (1 + u) ^ 3) * (mx ^ 2 * (1 + u) ^ 2) := c
      _ = (1 + u) ^ 7 * (mx ^ 2 * (1 + ρ)) := by ring

/-- in the main branch the square root is at least 1/2 -/
lemma s_half (hu0 : 0 < u) (hu : u ≤ 1 / 256) {ρ t s : ℚ} (hρ0 : 0 ≤ ρ) (htL : (1 + ρ) * (1 - u) ^ 3 ≤ t) (hs0 : 0 ≤ s)
    (hsL : (1 - u) ^ 2 * t ≤ s ^ 2) : 1 / 2 ≤ s := by
  by_contra hcon
  push Not at hcon
  have a : s ^ 2 < 1 / 4 := by nlinarith
  have b : (1 - u) ^ 2 * ((1 + ρ) * (1 - u) ^ 3) ≤ (1 - u) ^ 2 * t := mul_le_mul_of_nonneg_left htL (by positivity)
  obtain ⟨-, -, -, hF0, -⟩ := pow_bounds hu0.le hu
  have c : (1 - u) ^ 5 ≥ 1 - 5 * u := by
    have := one_add_mul_le_pow (a := -u) (by linarith) 5
    simp at this; linarith
  have d : (1 - u) ^ 5 * 1 ≤ (1 - u) ^ 5 * (1 + ρ) := mul_le_mul_of_nonneg_left (by linarith) hF0
  have e : (1 - u) ^ 2 * ((1 + ρ) * (1 - u) ^ 3) = (1 - u) ^ 5 * (1 + ρ) := by ring
  linarith

/-- tiny-ratio branch: from sqa = 1 the squared ratio is at most 4u, hence ρ ≤ 5u -/
lemma brA_small (hu0 : 0 < u) (hu : u ≤ 1 / 256) (hη0 : 0 ≤ η) (hη : η ≤ u ^ 2 / 8) {ρ rr t : ℚ} (hρ0 : 0 ≤ ρ)
    (hrrL : ρ * (1 - u) ^ 3 - 3 * η ≤ rr) (ht1 : (1 + rr) * (1 - u) ≤ t) (hsL : (1 - u) ^ 2 * t ≤ 1) : rr ≤ 4 * u ∧ ρ ≤ 5 * u := by
  have hrr4 : rr ≤ 4 * u := by
    by_contra hcon
    push Not at hcon
    have a : (1 - u) ^ 2 * ((1 + rr) * (1 - u)) ≤ (1 - u) ^ 2 * t := mul_le_mul_of_nonneg_left ht1 (by positivity)
    have b : (1 - u) ^ 3 * (1 + 4 * u) < (1 - u) ^ 3 * (1 + rr) := mul_lt_mul_of_pos_left (by linarith) (by apply pow_pos; linarith)
    have c : (1 - u) ^ 3 * (1 + 4 * u) = 1 + u - 9 * u ^ 2 + 11 * u ^ 3 - 4 * u ^ 4 := by ring
    have u2 : u ^ 2 ≤ u / 256 := by nlinarith
    have u4 : u ^ 4 ≤ u / 256 := by nlinarith [sq_nonneg u, pow_nonneg hu0.le 3]
    have p3 := pow_nonneg hu0.le 3
    have e : (1 - u) ^ 2 * ((1 + rr) * (1 - u)) = (1 - u) ^ 3 * (1 + rr) := by ring
    linarith
  refine ⟨hrr4, ?_⟩
  by_contra hcon
  push Not at hcon
  have a : (1 - u) ^ 3 ≥ 1 - 3 * u := by
    have := one_add_mul_le_pow (a := -u) (by linarith) 3
    simp at this; linarith
  have b : 5 * u * (1 - 3 * u) < ρ * (1 - u) ^ 3 := by
    calc 5 * u * (1 - 3 * u) < ρ * (1 - 3 * u) := mul_lt_mul_of_pos_right hcon (by linarith)
      _ ≤ ρ * (1 - u) ^ 3 := mul_le_mul_of_nonneg_left a hρ0
  nlinarith

/-- tiny-ratio branch: H = RN(mx + RN(RN(mx·r)/2)) -/
lemma br_small (hu0 : 0 < u) (hu : u ≤ 1 / 256) {ρ v mx H : ℚ} (hρ0 : 0 ≤ ρ) (hρ5 : ρ ≤ 5 * u) (hmx : 0 < mx)
    (hvL : mx * (1 - u - u ^ 2 + ρ * (1 - u) ^ 5 / 2) ≤ v) (hvU : v ≤ mx * (1 + u + u ^ 2 + ρ * (1 + u) ^ 5 / 2))
    (hH1 : v * (1 - u) ≤ H) (hH2 : H ≤ v * (1 + u)) :
    0 ≤ H ∧ (1 - u) ^ 7 * (mx ^ 2 * (1 + ρ)) ≤ H ^ 2 ∧ H ^ 2 ≤ (1 + u) ^ 7 * (mx ^ 2 * (1 + ρ)) := by
  have h1u : 0 < 1 - u := by linarith
  have sqU := brA_sq_upper hu0.le hu hρ0 hρ5
  have sqL := brA_sq_lower hu0.le hu hρ0 hρ5
  obtain ⟨-, -, -, hF0, -⟩ := pow_bounds hu0.le hu
  set A := 1 + u + u ^ 2 + ρ * (1 + u) ^ 5 / 2 with hA
  set B := 1 - u - u ^ 2 + ρ * (1 - u) ^ 5 / 2 with hB
  have hB0 : 0 ≤ B := by
    have : 0 ≤ ρ * (1 - u) ^ 5 / 2 := by positivity
    nlinarith
  have hv0 : 0 ≤ v := le_trans (by positivity) hvL
  have hH0 : 0 ≤ H := le_trans (by positivity) hH1
  refine ⟨hH0, ?_, ?_⟩
  · have a : (mx * B * (1 - u)) ^ 2 ≤ H ^ 2 := by
      apply pow_le_pow_left₀ (by positivity)
      calc mx * B * (1 - u) ≤ v * (1 - u) := mul_le_mul_of_nonneg_right hvL h1u.le
        _ ≤ H := hH1
    have b : (1 + ρ) * (1 - u) ^ 5 * (mx ^ 2 * (1 - u) ^ 2) ≤ B ^ 2 * (mx ^ 2 * (1 - u) ^ 2) :=
      mul_le_mul_of_nonneg_right sqL (by positivity)
    calc (1 - u) ^ 7 * (mx ^ 2 * (1 + ρ)) = (1 + ρ) * (1 - u) ^ 5 * (mx ^ 2 * (1 - u) ^ 2) := by ring
      _ ≤ B ^ 2 * (mx ^ 2 * (1 - u) ^ 2) := b
      _ = (mx * B * (1 - u)) ^ 2 := by ring
      _ ≤ H ^ 2 := a
  · have a : H ^ 2 ≤ (mx * A * (1 + u)) ^ 2 := by
      apply pow_le_pow_left₀ hH0
      calc H ≤ v * (1 + u) := hH2
        _ ≤ mx * A * (1 + u) := mul_le_mul_of_nonneg_right hvU (by linarith)
    have b : A ^ 2 * (mx ^ 2 * (1 + u) ^ 2) ≤ (1 + ρ) * (1 + u) ^ 5 * (mx ^ 2 * (1 + u) ^ 2) :=
      mul_le_mul_of_nonneg_right sqU (by positivity)
    calc H ^ 2 ≤ (mx * A * (1 + u)) ^ 2 := a
      _ = A ^ 2 * (mx ^ 2 * (1 + u) ^ 2) := by ring
      _ ≤ (1 + ρ) * (1 + u) ^ 5 * (mx ^ 2 * (1 + u) ^ 2) := b
      _ = (1 + u) ^ 7 * (mx ^ 2 * (1 + ρ)) := by ring

end arith

section rounding
variable {f : QFmt} {r : ℚ → ℚ} (hr : IsRN f r)
include hr

lemma rn_nonneg' {z : ℚ} (hz : 0 ≤ z) : 0 ≤ r z := by
  have h0 : Rep f 0 := ⟨0, f.emin, by simp, by positivity, le_refl _⟩
  have := hr.near z 0 h0
  rw [zero_sub, abs_neg, abs_of_nonneg hz] at this
  have := (abs_le.mp this).1
  linarith

/-- standard model with gradual underflow, for z ≥ 0 -/
lemma rn_model {z : ℚ} (hz : 0 ≤ z) : z * (1 - uro f) - 2 ^ f.emin / 2 ≤ r z ∧ r z ≤ z * (1 + uro f) + 2 ^ f.emin / 2 := by
  have := rn_abs_err hr z
  rw [abs_of_nonneg hz] at this
  have := abs_le.mp this
  constructor <;> nlinarith [this.1, this.2]

/-- standard model in the normal range, for z ≥ 0 -/
lemma rn_model_normal {z : ℚ} (hz : 2 ^ (f.emin + f.p - 1) ≤ z) : z * (1 - uro f) ≤ r z ∧ r z ≤ z * (1 + uro f) := by
  have hz0 : 0 ≤ z := le_trans (by positivity) hz
  have := rn_rel_err hr (z := z) (Or.inr (by rwa [abs_of_nonneg hz0]))
  rw [abs_of_nonneg hz0] at this
  have := abs_le.mp this
  constructor <;> nlinarith [this.1, this.2]

end rounding


/-- unit roundoff and underflow unit of the formats considered: p ≥ 8, emin + 2p + 2 ≤ 0 -/
lemma fmt_facts {f : QFmt} (hp : 8 ≤ f.p) (hem : f.emin + 2 * f.p + 2 ≤ 0) :
    uro f ≤ 1 / 256 ∧ (2 : ℚ) ^ f.emin / 2 ≤ uro f ^ 2 / 8 ∧ uro f * 2 ^ (f.emin + (f.p : ℤ)) = 2 ^ f.emin := by
  have hP : (0 : ℚ) < 2 ^ f.p := by positivity
  refine ⟨?_, ?_, ?_⟩
  · unfold uro
    have : (2 : ℚ) ^ 8 ≤ 2 ^ f.p := pow_le_pow_right₀ (by norm_num) hp
    rw [div_le_div_iff₀ hP (by norm_num)]
    norm_num at this ⊢; linarith
  · have h1 : (2 : ℚ) ^ f.emin ≤ 2 ^ (-(((2 * f.p + 2 : ℕ)) : ℤ)) := zpow_le_zpow_right₀ (by norm_num) (by push_cast; omega)
    have h2 : (2 : ℚ) ^ (-(((2 * f.p + 2 : ℕ)) : ℤ)) = uro f ^ 2 / 4 := by
      unfold uro
      rw [zpow_neg, zpow_natCast, pow_add, pow_mul']
      field_simp
      norm_num
    rw [h2] at h1; linarith
  · unfold uro
    rw [zpow_add₀ (by norm_num : (2 : ℚ) ≠ 0), zpow_natCast]
    field_simp

/-- **hypot on the closed form.**  `mx ≥ mn ≥ 0`, `mx` at least twice the smallest normal number; formats with
p ≥ 8 and emin + 2p + 2 ≤ 0 (all IEEE and bfloat formats). -/
theorem hypot_core {f : QFmt} {r S : ℚ → ℚ} (hr : IsRN f r) (hS : SqrtOK f S) (hp : 8 ≤ f.p) (hem : f.emin + 2 * f.p + 2 ≤ 0)
    {σ2 : ℚ} (hσ0 : 0 ≤ σ2) (hσlo : (1 - uro f) ^ 2 * 2 ≤ σ2 ^ 2) (hσhi : σ2 ^ 2 ≤ (1 + uro f) ^ 2 * 2)
    {mx mn : ℚ} (hmn0 : 0 ≤ mn) (hmnx : mn ≤ mx) (hmx : 2 ^ (f.emin + (f.p : ℤ)) ≤ mx)
    (H : ℚ) (hH : H = if mn = mx then r (σ2 * mx) else
      if (1 = S (r (1 + r (r (mn / mx) * r (mn / mx)))) ∧ 0 < r (r (mn / mx) * r (mn / mx)))
      then r (r (r (mx * r (r (mn / mx) * r (mn / mx))) / 2) + mx) else r (S (r (1 + r (r (mn / mx) * r (mn / mx)))) * mx)) :
    0 ≤ r (1 + r (r (mn / mx) * r (mn / mx))) ∧ 0 ≤ H ∧ (1 - uro f) ^ 7 * (mx ^ 2 + mn ^ 2) ≤ H ^ 2 ∧ H ^ 2 ≤ (1 + uro f) ^ 7 * (mx ^ 2 + mn ^ 2) := by
  obtain ⟨hu1, hηu, hue⟩ := fmt_facts hp hem
  have hu0 : 0 < uro f := uro_pos
  have hη0 : (0 : ℚ) ≤ 2 ^ f.emin / 2 := by positivity
  have hmxpos : 0 < mx := lt_of_lt_of_le (by positivity) hmx
  have hηm : 2 * ((2 : ℚ) ^ f.emin / 2) ≤ uro f * mx := by
    have h2 : uro f * 2 ^ (f.emin + (f.p : ℤ)) ≤ uro f * mx := mul_le_mul_of_nonneg_left hmx hu0.le
    linarith
  have hnorm1 : (2 : ℚ) ^ (f.emin + (f.p : ℤ) - 1) ≤ 1 := by
    have : (2 : ℚ) ^ (f.emin + (f.p : ℤ) - 1) ≤ 2 ^ (0 : ℤ) := zpow_le_zpow_right₀ (by norm_num) (by omega)
    simpa using this
  have hnorm2 : (2 : ℚ) ^ (f.emin + (f.p : ℤ)) = 2 * 2 ^ (f.emin + (f.p : ℤ) - 1) := by
    rw [show f.emin + (f.p : ℤ) = (f.emin + (f.p : ℤ) - 1) + 1 by ring, zpow_add₀ (by norm_num : (2 : ℚ) ≠ 0)]
    simp; ring
  have hpos2 : (0 : ℚ) < 2 ^ (f.emin + (f.p : ℤ) - 1) := by positivity
  obtain ⟨hw0, hw1, hρ0, hρ1, hsum⟩ := ratio_facts hmn0 hmnx hmxpos
  generalize hq : r (mn / mx) = q at *
  have hq0 : 0 ≤ q := by rw [← hq]; exact rn_nonneg' hr hw0
  obtain ⟨hq1, hq2⟩ : mn / mx * (1 - uro f) - 2 ^ f.emin / 2 ≤ q ∧ q ≤ mn / mx * (1 + uro f) + 2 ^ f.emin / 2 := by
    rw [← hq]; exact rn_model hr hw0
  have hqq0 : 0 ≤ q * q := mul_nonneg hq0 hq0
  generalize hrr : r (q * q) = rr at *
  have hrr0 : 0 ≤ rr := by rw [← hrr]; exact rn_nonneg' hr hqq0
  obtain ⟨hr1, hr2⟩ : q ^ 2 * (1 - uro f) - 2 ^ f.emin / 2 ≤ rr ∧ rr ≤ q ^ 2 * (1 + uro f) + 2 ^ f.emin / 2 := by
    rw [← hrr, pow_two]; exact rn_model hr hqq0
  have hη8 : (2 : ℚ) ^ f.emin / 2 ≤ 1 / 8 := by
    have : uro f ^ 2 ≤ (1 / 256) ^ 2 := pow_le_pow_left₀ hu0.le hu1 2
    linarith
  have hrrU := rr_upper hu0.le hu1 hη0 hη8 hw0 hw1 hq0 hq2 hr2
  have hrrL := rr_lower hu0.le hu1 hη0 hw0 hw1 hq0 hq1 hr1
  generalize ht : r (1 + rr) = t at *
  obtain ⟨ht1, ht2⟩ : (1 + rr) * (1 - uro f) ≤ t ∧ t ≤ (1 + rr) * (1 + uro f) := by
    rw [← ht]; exact rn_model_normal hr (by linarith)
  have htU := t_upper hu0.le hu1 hη0 hηu hρ0 hρ1 hrrU ht2
  have htL := t_lower hu0.le hu1 hη0 hηu hρ0 hρ1 hrrL ht1
  have h1u : 0 < 1 - uro f := by linarith
  have ht0 : 0 ≤ t := le_trans (by positivity) htL
  refine ⟨ht0, ?_⟩
  have hs0 := hS.nonneg t ht0
  have hsL := hS.lo t ht0
  have hsU := hS.hi t ht0
  generalize hs : S t = s at *
  by_cases hc1 : mn = mx
  · rw [if_pos hc1] at hH
    have hσ1 : 1 ≤ σ2 := sigma_ge_one hu0 hu1 hσ0 hσlo
    have hzn : (2 : ℚ) ^ (f.emin + (f.p : ℤ) - 1) ≤ σ2 * mx := by
      have := mul_le_mul_of_nonneg_right hσ1 hmxpos.le
      linarith
    obtain ⟨hh1, hh2⟩ := rn_model_normal hr (z := σ2 * mx) hzn
    rw [← hH] at hh1 hh2
    have := br_eq hu0 hu1 hσ0 hσlo hσhi hmxpos hh1 hh2
    rw [hc1]; exact this
  · rw [if_neg hc1] at hH
    rw [hsum]
    by_cases hc2 : (1 = s ∧ 0 < rr)
    · rw [if_pos hc2] at hH
      obtain ⟨hs1, hrrpos⟩ := hc2
      rw [← hs1] at hsL
      obtain ⟨hrr4, hρ5⟩ := brA_small hu0 hu1 hη0 hηu hρ0 hrrL ht1 (by simpa using hsL)
      have hz1 : 0 ≤ mx * rr := by positivity
      obtain ⟨hp1a, hp1b⟩ := rn_model hr hz1
      have hz2 : 0 ≤ r (mx * rr) / 2 := by have := rn_nonneg' hr hz1; positivity
      obtain ⟨hp2a, hp2b⟩ := rn_model hr hz2
      have hvU := brA_v_upper hu0.le hu1 hη0 hηu hmxpos hηm hρ0 hrr0 hrrU hp1b hp2b
      have hvL := brA_v_lower hu0.le hu1 hη0 hηu hmxpos hηm hρ0 hρ1 hrr0 hrrL hp1a hp2a
      have hp20 := rn_nonneg' hr hz2
      obtain ⟨hh1, hh2⟩ := rn_model_normal hr (z := r (r (mx * rr) / 2) + mx) (by linarith)
      rw [← hH] at hh1 hh2
      exact br_small hu0 hu1 hρ0 hρ5 hmxpos hvL hvU hh1 hh2
    · rw [if_neg hc2] at hH
      have hhalf := s_half hu0 hu1 hρ0 htL hs0 hsL
      have hzn : (2 : ℚ) ^ (f.emin + (f.p : ℤ) - 1) ≤ s * mx := by
        have := mul_le_mul_of_nonneg_right hhalf hmxpos.le
        linarith
      obtain ⟨hh1, hh2⟩ := rn_model_normal hr (z := s * mx) hzn
      rw [← hH] at hh1 hh2
      exact br_main hu0 hu1 hρ0 hmxpos htL htU hs0 hsL hsU hh1 hh2

end FAVerif.FPQ
