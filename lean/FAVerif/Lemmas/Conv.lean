/-
Lemmas for C13 (number-representation conversions): umbrella module plus the small
statements about infinities, NaN and tuple values used by `Props/C13.lean`.

  ConvBasic  bit length, trailing zeros, `_normalize` without rounding, canonical tuples
  ConvFrac   fields of a pattern, `float2fraction` = decoded value
  ConvMpf    finite patterns as (sign, m, e); `roundDyadic` exact; `float2mpf`, `mpf2floatC` on canonical tuples
  ConvRound  numerator/denominator of a dyadic rational; fraction round trip
  ConvBin    bit strings, `int(s,2)`, decimal exponents, the frame of a float2bin string
  ConvBin2   `float2bin` produces a frame; bin round trip and value
  ConvExp    mpf addition on a common grid; expansion2mpf / mpf2expansion
  ConvMw     bit slicing of mpf2multiword
-/
import FAVerif.Lemmas.ConvBin2
import FAVerif.Lemmas.ConvExp
import FAVerif.Lemmas.ConvMw

namespace FAVerif.Conv
open FAVerif.FP

theorem infBits_lt_signBit (f : Fmt) (hp : 1 ≤ f.p) : f.infBits < f.signBit := by
  rw [signBit_eq f hp]
  unfold Fmt.infBits Fmt.expMax
  apply Nat.mul_lt_mul_of_lt_of_le _ (Nat.le_refl _) (Nat.two_pow_pos _)
  have := Nat.two_pow_pos f.ew; omega

/-- an infinite pattern is `infBits` or `signBit + infBits` -/
theorem inf_pattern (f : Fmt) (b : Nat) (hp : 1 ≤ f.p) (hb : b < 2 ^ f.width) (hinf : isInfb f b = true) :
    (fields f b).e = f.expMax ∧ (fields f b).m = 0 ∧ b = (if (fields f b).sign then f.signBit else 0) + f.infBits := by
  have hdec := fields_decomp f b hp hb
  unfold isInfb at hinf
  simp only [Bool.and_eq_true, beq_iff_eq] at hinf
  obtain ⟨hE, hM⟩ := hinf
  refine ⟨hE, hM, ?_⟩
  rw [hE, hM] at hdec
  unfold Fmt.infBits; omega

/-- float2fraction of ±inf is ±2^maxexp -/
theorem f2q_inf' (f : Fmt) (b : Nat) (hew : 2 ≤ f.ew) (hp : 1 ≤ f.p) (hb : b < 2 ^ f.width) (hinf : isInfb f b = true) :
    float2fraction f b = (((if (fields f b).sign then (-1:Int) else 1) * (2 ^ maxexp f : Nat) : Int) : ℚ) := by
  obtain ⟨hE, hM, _⟩ := inf_pattern f b hp hb hinf
  have hF := f2q_fields f b
  have hE3 := expMax_ge f hew
  have hlt : ltZero f b = (fields f b).sign := by
    unfold ltZero isNaNb isZerob
    rw [hE, hM]; simp; omega
  unfold float2fraction
  simp only [hF.1, hF.2, hlt]
  have c2 : ¬ ((fields f b).e = 0) := by omega
  have c3 : (fields f b).e = 2 ^ f.ew - 1 := hE
  rw [if_neg (fun h => c2 h.1), if_neg c2, if_pos ⟨c3, hM⟩]
  rw [Rat.divInt_eq_div]
  cases (fields f b).sign <;> simp

theorem q2f_f2q_inf' (f : Fmt) (b : Nat) (hew : 2 ≤ f.ew) (hp : 1 ≤ f.p) (hb : b < 2 ^ f.width) (hinf : isInfb f b = true) :
    fraction2float f (float2fraction f b) = b := by
  obtain ⟨hE, hM, hpat⟩ := inf_pattern f b hp hb hinf
  rw [f2q_inf' f b hew hp hb hinf]
  unfold fraction2float
  rw [Rat.num_intCast, Rat.den_intCast]
  have hpos := Nat.two_pow_pos (maxexp f)
  cases hs : (fields f b).sign
  · rw [hs] at hpat
    have h1 : ((if false = true then (-1:Int) else 1) * ((2 ^ maxexp f : Nat) : Int)) = ((2 ^ maxexp f : Nat) : Int) := by simp
    rw [h1]
    have c1 : ¬ (((2 ^ maxexp f : Nat) : Int) = 0) := by omega
    have c2 : ¬ (((2 ^ maxexp f : Nat) : Int) < 0) := by omega
    simp only [c1, c2, if_false, Int.natAbs_natCast]
    simp
    simpa using hpat.symm
  · rw [hs] at hpat
    have h1 : ((if true = true then (-1:Int) else 1) * ((2 ^ maxexp f : Nat) : Int)) = -((2 ^ maxexp f : Nat) : Int) := by simp
    rw [h1]
    have c1 : ¬ (-((2 ^ maxexp f : Nat) : Int) = 0) := by omega
    have c2 : (-((2 ^ maxexp f : Nat) : Int) < 0) := by omega
    simp only [c1, c2, if_false, if_true, Int.natAbs_neg, Int.natAbs_natCast]
    simp
    simpa using hpat.symm

/-- float → mpf → float on infinities -/
theorem mpf_roundtrip_inf' (f : Fmt) (b : Nat) (prec : Nat) (hp : 1 ≤ f.p) (hb : b < 2 ^ f.width)
    (hinf : isInfb f b = true) :
    ∃ t, float2mpf f prec b = .ok t ∧ t.isInf = true ∧ mpf2floatC f t = b := by
  obtain ⟨hE, hM, hpat⟩ := inf_pattern f b hp hb hinf
  unfold float2mpf
  simp only [hinf, if_true]
  cases hs : (fields f b).sign
  · refine ⟨finf, by simp, by decide, ?_⟩
    rw [hs] at hpat
    unfold mpf2floatC
    have h1 : finf.isFinite = false := by decide
    have h2 : finf.isNaN = false := by decide
    have h3 : finf.sign = 0 := rfl
    simp [h1, h2, h3]
    simpa using hpat.symm
  · refine ⟨fninf, by simp, by decide, ?_⟩
    rw [hs] at hpat
    unfold mpf2floatC
    have h1 : fninf.isFinite = false := by decide
    have h2 : fninf.isNaN = false := by decide
    have h3 : fninf.sign = 1 := rfl
    simp [h1, h2, h3]
    simpa using hpat.symm

/-- float → mpf → float on NaN -/
theorem mpf_roundtrip_nan' (f : Fmt) (b : Nat) (prec : Nat) (hnan : isNaNb f b = true) :
    float2mpf f prec b = .ok fnan ∧ mpf2floatC f fnan = nanBits f := by
  have hinf : isInfb f b = false := by
    unfold isNaNb at hnan; unfold isInfb
    simp only [Bool.and_eq_true, beq_iff_eq, bne_iff_ne] at hnan
    simp [hnan.2]
  constructor
  · unfold float2mpf; simp [hinf, hnan]
  · unfold mpf2floatC
    have h1 : fnan.isFinite = false := by decide
    have h2 : fnan.isNaN = true := by decide
    simp [h1, h2]

theorem nanBits_isNaN (f : Fmt) (hew : 1 ≤ f.ew) (hp : 2 ≤ f.p) : isNaNb f (nanBits f) = true := by
  have hfb : f.fracBits = f.p - 1 := rfl
  have hsb := signBit_eq f (by omega)
  have hpos : 0 < 2 ^ (f.fracBits - 1) := Nat.two_pow_pos _
  have hlt : 2 ^ (f.fracBits - 1) < 2 ^ f.fracBits := Nat.pow_lt_pow_right (by omega) (by omega)
  have hE : f.expMax < 2 ^ f.ew := by unfold Fmt.expMax; have := Nat.two_pow_pos f.ew; omega
  have hF : fields f (nanBits f) = ⟨false, f.expMax, 2 ^ (f.fracBits - 1)⟩ := by
    unfold fields nanBits Fmt.infBits
    rw [hsb]
    have h1 : (f.expMax * 2 ^ f.fracBits + 2 ^ (f.fracBits - 1)) / 2 ^ f.fracBits = f.expMax := by
      rw [Nat.mul_comm, Nat.mul_add_div (Nat.two_pow_pos _), Nat.div_eq_of_lt hlt]; omega
    have h2 : (f.expMax * 2 ^ f.fracBits + 2 ^ (f.fracBits - 1)) % 2 ^ f.fracBits = 2 ^ (f.fracBits - 1) := by
      rw [Nat.mul_comm, Nat.mul_add_mod, Nat.mod_eq_of_lt hlt]
    have h3 : (f.expMax * 2 ^ f.fracBits + 2 ^ (f.fracBits - 1)) / (2 ^ f.ew * 2 ^ f.fracBits) = 0 := by
      apply Nat.div_eq_of_lt
      calc f.expMax * 2 ^ f.fracBits + 2 ^ (f.fracBits - 1) < f.expMax * 2 ^ f.fracBits + 2 ^ f.fracBits := by omega
        _ = (f.expMax + 1) * 2 ^ f.fracBits := by ring
        _ ≤ 2 ^ f.ew * 2 ^ f.fracBits := Nat.mul_le_mul_right _ (by omega)
    rw [h1, h2, h3, Nat.mod_eq_of_lt hE]
    simp
  unfold isNaNb
  rw [hF]
  simp

/-- the value of the canonical tuple -/
theorem canonT_toRat (s : Bool) (m : Nat) (e : Int) : (canonT (sgnNat s) m e).toRat? = some (valQ s m e) := by
  by_cases hm : m = 0
  · subst hm
    unfold canonT valQ
    simp [MpfT.toRat?, MpfT.isSpecial, fzero, MpfT.sman]
  · have hodd := oddPart_ne_zero m hm
    rw [valQ_eq s m e hm, ← pow2_eq_zpow]
    unfold MpfT.toRat?
    have hsp : (canonT (sgnNat s) m e).isSpecial = false := by
      rw [canonT_fields _ m e hm]; unfold MpfT.isSpecial; simp [hodd]
    rw [hsp]
    simp only [Bool.false_eq_true, if_false]
    rw [sman_canonT s m e hm, canonT_fields _ m e hm]

/-- the value of a good word in units of `2^emin` -/
theorem gridInt_toRat (f : Fmt) (b : Nat) (hew : 2 ≤ f.ew) (hp : 1 ≤ f.p) (hg : GoodWord f b) :
    (decode f b).toRat? = some ((gridInt f b : ℚ) * pow2 f.emin) := by
  obtain ⟨m, e, hd, hwf, _, _⟩ := finite_view f b hew hp hg.1 hg.2
  unfold gridInt
  rw [finParts_of_decode f b _ m e hd, hd]
  simp only [V.toRat?]
  congr 1
  have hge := hwf.ge
  have := nat_mul_pow2 m (e - f.emin).toNat f.emin
  have he : f.emin + ((e - f.emin).toNat : Int) = e := by omega
  rw [he] at this
  push_cast at this ⊢
  rw [mul_assoc, mul_assoc, this]

theorem fields_nanBits (f : Fmt) (hew : 1 ≤ f.ew) (hp : 2 ≤ f.p) :
    fields f (nanBits f) = ⟨false, f.expMax, 2 ^ (f.fracBits - 1)⟩ := by
  have hfb : f.fracBits = f.p - 1 := rfl
  have hsb := signBit_eq f (by omega)
  have hpos : 0 < 2 ^ (f.fracBits - 1) := Nat.two_pow_pos _
  have hlt : 2 ^ (f.fracBits - 1) < 2 ^ f.fracBits := Nat.pow_lt_pow_right (by omega) (by omega)
  have hE : f.expMax < 2 ^ f.ew := by unfold Fmt.expMax; have := Nat.two_pow_pos f.ew; omega
  unfold fields nanBits Fmt.infBits
  rw [hsb]
  have h1 : (f.expMax * 2 ^ f.fracBits + 2 ^ (f.fracBits - 1)) / 2 ^ f.fracBits = f.expMax := by
    rw [Nat.mul_comm, Nat.mul_add_div (Nat.two_pow_pos _), Nat.div_eq_of_lt hlt]; omega
  have h2 : (f.expMax * 2 ^ f.fracBits + 2 ^ (f.fracBits - 1)) % 2 ^ f.fracBits = 2 ^ (f.fracBits - 1) := by
    rw [Nat.mul_comm, Nat.mul_add_mod, Nat.mod_eq_of_lt hlt]
  have h3 : (f.expMax * 2 ^ f.fracBits + 2 ^ (f.fracBits - 1)) / (2 ^ f.ew * 2 ^ f.fracBits) = 0 := by
    apply Nat.div_eq_of_lt
    calc f.expMax * 2 ^ f.fracBits + 2 ^ (f.fracBits - 1) < f.expMax * 2 ^ f.fracBits + 2 ^ f.fracBits := by omega
      _ = (f.expMax + 1) * 2 ^ f.fracBits := by ring
      _ ≤ 2 ^ f.ew * 2 ^ f.fracBits := Nat.mul_le_mul_right _ (by omega)
  rw [h1, h2, h3, Nat.mod_eq_of_lt hE]
  simp

/-- Regression lemma for the defect repaired in /repo by 81efdaa: the `while True` loop of `mpf2expansion`,
which the code used to enter with a NaN, never exits on NaN (`length=None`) — every format, precision, fuel. -/
theorem expansionLoop_nan (f : Fmt) (prec : Nat) (hew : 2 ≤ f.ew) (hp : 2 ≤ f.p) :
    ∀ (fuel : Nat) (acc : List Nat), expansionLoopG (mpf2floatC f) f prec none fuel fnan acc = .error .nonTermination := by
  have hF := fields_nanBits f (by omega) hp
  have hE3 := expMax_ge f hew
  have hpos : 0 < 2 ^ (f.fracBits - 1) := Nat.two_pow_pos _
  have hy : mpf2floatC f fnan = nanBits f := (mpf_roundtrip_nan' f (nanBits f) prec (nanBits_isNaN f (by omega) hp)).2
  have hnan : isNaNb f (nanBits f) = true := nanBits_isNaN f (by omega) hp
  have hinf : isInfb f (nanBits f) = false := by unfold isInfb; rw [hF]; simp
  have hz : isZerob f (nanBits f) = false := by unfold isZerob; rw [hF]; simp
  have hm : float2mpf f prec (nanBits f) = .ok fnan := (mpf_roundtrip_nan' f (nanBits f) prec hnan).1
  have hsub : mpfSub prec fnan fnan = fnan := by
    unfold mpfSub mpfNeg mpfAdd
    simp [fnan, finf, fninf]
  intro fuel
  induction fuel with
  | zero => intro acc; rfl
  | succ k ih =>
    intro acc
    unfold expansionLoopG
    simp only [hy, hinf, hz, Bool.or_self, Bool.false_eq_true, if_false, hm, hsub]
    have : ¬ ((none : Option Nat) = some (acc ++ [nanBits f]).length) := by simp
    simp only [this, if_false]
    exact ih _

theorem canonI_toRat (N : Int) (g : Int) : (canonI N g).toRat? = some ((N : ℚ) * pow2 g) := by
  have h := canonT_toRat (decide (N < 0)) N.natAbs g
  have hs : sgnNat (decide (N < 0)) = (if N < 0 then 1 else 0) := by
    unfold sgnNat; by_cases hN : N < 0 <;> simp [hN]
  unfold canonI
  rw [← hs, h]
  congr 1
  unfold valQ
  by_cases hN : N < 0
  · have : ((N.natAbs : Nat) : ℚ) = -(N : ℚ) := by
      have h1 : ((N.natAbs : Nat) : Int) = -N := by omega
      rw [← Int.cast_natCast, h1, Int.cast_neg]
    simp [hN, this]
  · have : ((N.natAbs : Nat) : ℚ) = (N : ℚ) := by
      have h1 : ((N.natAbs : Nat) : Int) = N := by omega
      rw [← Int.cast_natCast, h1]
    simp [hN, this]

end FAVerif.Conv
