/-
C04 — soundness of the inference properties (`Expr._is_nonnegative`, `_is_nonpositive`,
`_is_positive`, `_is_negative`, `_is_zero`, `_is_finite`, `_is_one`) of the model w.r.t. the
semantics of `RewriterSem.lean`: whenever an answer is not `None` it is true of the value of
the expression on every assignment on which the expression is defined.
-/
import FAVerif.Lemmas.RewriterSem

set_option linter.unusedSectionVars false
set_option linter.unusedVariables false

namespace FAVerif.Rewriter

variable {K : Type} [Field K] [LinearOrder K] [IsStrictOrderedRing K]
variable {S : Sem K}

/-- meaning of an answer `b` to the query `q` (`true`: nonnegative?, `false`: nonpositive?) -/
def sf (q b : Bool) (x : K) : Prop :=
  match q, b with
  | true, true => 0 ≤ x
  | true, false => x < 0
  | false, true => x ≤ 0
  | false, false => 0 < x

def SignFact (q b : Bool) (a : EV K) : Prop :=
  match q, b with
  | true, true => EV.le (.fin 0) a
  | true, false => EV.lt a (.fin 0)
  | false, true => EV.le a (.fin 0)
  | false, false => EV.lt (.fin 0) a

theorem signFact_fin (q b : Bool) (x : K) : SignFact q b (.fin x) ↔ sf q b x := by
  cases q <;> cases b <;> simp [SignFact, sf]

theorem signFact_neg {q b : Bool} {a : EV K} (h : SignFact (!q) b a) : SignFact q b a.neg := by
  cases a with
  | fin x =>
    rw [signFact_fin] at h
    simp only [EV.neg, signFact_fin]
    cases q <;> cases b <;> simp_all [sf]
  | ninf => cases q <;> cases b <;> simp_all [SignFact, EV.neg, EV.lt, EV.le]
  | pinf => cases q <;> cases b <;> simp_all [SignFact, EV.neg, EV.lt, EV.le]

theorem sf_rnd (L : S.Laws) {q b : Bool} {z : K} (hok : S.ok z = true) (h : sf q b z) : sf q b (S.rnd z) := by
  cases q <;> cases b <;> simp only [sf] at *
  · exact L.rnd_pos hok h
  · exact L.rnd_nonpos h
  · exact L.rnd_neg hok h
  · exact L.rnd_nonneg h

theorem sf_inv {q b : Bool} {y : K} (h : sf q b y) : sf q b y⁻¹ := by
  cases q <;> cases b <;> simp only [sf] at *
  · exact inv_pos.2 h
  · exact inv_nonpos.2 h
  · exact inv_lt_zero.2 h
  · exact inv_nonneg.2 h

theorem sf_mul_tt {x y : K} (hx : sf true true x) (hy : sf true true y) : sf true true (x * y) := mul_nonneg hx hy
theorem sf_mul_ff_tt {x y : K} (hx : sf false true x) (hy : sf false true y) : sf true true (x * y) := by
  simp only [sf] at *; nlinarith [mul_nonneg (neg_nonneg.2 hx) (neg_nonneg.2 hy)]
theorem sf_mul_neg_pos {x y : K} (hx : sf true false x) (hy : sf false false y) : sf true false (x * y) :=
  mul_neg_of_neg_of_pos hx hy
theorem sf_mul_pos_neg {x y : K} (hx : sf false false x) (hy : sf true false y) : sf true false (x * y) :=
  mul_neg_of_pos_of_neg hx hy
theorem sf_mul_np_pos {x y : K} (hx : sf false true x) (hy : sf false false y) : sf false true (x * y) := by
  simp only [sf] at *; nlinarith [mul_nonneg (neg_nonneg.2 hx) (le_of_lt hy)]
theorem sf_mul_nn_neg {x y : K} (hx : sf true true x) (hy : sf true false y) : sf false true (x * y) := by
  simp only [sf] at *; nlinarith [mul_nonneg hx (le_of_lt (neg_pos.2 hy))]
theorem sf_mul_neg_neg {x y : K} (hx : sf true false x) (hy : sf true false y) : sf false false (x * y) :=
  mul_pos_of_neg_of_neg hx hy
theorem sf_mul_pos_pos {x y : K} (hx : sf false false x) (hy : sf false false y) : sf false false (x * y) :=
  mul_pos hx hy

/-! ## `signs` -/

theorem seq_ok {α : Type} {c : M Unit} {m : M α} {r : α} (h : (do c; m) = .ok r) : m = .ok r := by
  simp only [bind_eq_ok] at h
  obtain ⟨_, _, h⟩ := h
  exact h

theorem signs_get_un (q : Bool) (k : K1) (x : Expr) :
    (signs (.un k x)).get q = (do assertReal (.un k x); unSign q k (signs x)) := by
  cases q <;> rfl

theorem signs_get_bin (q : Bool) (k : K2) (x y : Expr) :
    (signs (.bin k x y)).get q =
      (do assertReal (.bin k x y); binSign q k (x == y && !x.isConst) (signs x) (signs y)) := by
  cases q <;> rfl

theorem signs_get_const (q : Bool) (v : CVal) (l : Expr) :
    (signs (.const v l)).get q = (do assertReal (.const v l); pure (constSign q v)) := by
  cases q <;> rfl

theorem signs_get_sym (q : Bool) (n : String) (t : Ty) (b : Bool) :
    (signs (.sym n t)).get q ≠ .ok (some b) := by
  intro h
  cases q <;> (simp only [signs, Signs.get] at h; have := seq_ok h; simp at this)

theorem signs_get_select (q : Bool) (c x y : Expr) (b : Bool) :
    (signs (.select c x y)).get q ≠ .ok (some b) := by
  intro h
  cases q <;> (simp only [signs, Signs.get] at h; have := seq_ok h; simp at this)

theorem extQ_le_fin (a b : Rat) : ExtQ.le (.fin a) (.fin b) = decide (a ≤ b) := rfl

theorem const_of_ext {v : CVal} {x : ExtQ} (hreal : v.isReal = true) (hx : v.ext? = some x) :
    S.const v = S.ofExt x := by
  cases v <;> simp [CVal.isReal] at hreal <;> simp only [Sem.const, hx]

theorem isReal_ext {v : CVal} (hreal : v.isReal = true) : ∃ x, v.ext? = some x := by
  cases v <;> simp [CVal.isReal] at hreal <;> simp [CVal.ext?]

theorem constSign_sound (L : S.Laws) {q b : Bool} {v : CVal} {a : EV K}
    (hc : constSign q v = some b) (ha : S.const v = some a) : SignFact q b a := by
  unfold constSign at hc
  by_cases hreal : v.isReal = true
  · rw [if_pos hreal] at hc
    simp only [Option.some.injEq] at hc
    obtain ⟨x, hx⟩ := isReal_ext hreal
    rw [const_of_ext hreal hx] at ha
    simp only [CVal.ge0, CVal.le0, hx] at hc
    cases x with
    | nan => simp [Sem.ofExt] at ha
    | pinf => simp only [Sem.ofExt] at ha; cases ha; cases q <;> cases b <;> simp_all [SignFact, ExtQ.le, EV.lt, EV.le]
    | ninf => simp only [Sem.ofExt] at ha; cases ha; cases q <;> cases b <;> simp_all [SignFact, ExtQ.le, EV.lt, EV.le]
    | fin p =>
      simp only [Sem.ofExt] at ha
      obtain ⟨hok, rfl⟩ := arith_eq_some ha
      rw [signFact_fin]
      apply sf_rnd L hok
      simp only [extQ_le_fin] at hc
      cases q <;> cases b <;> simp only [sf] <;> simp at hc
      · exact_mod_cast hc
      · exact_mod_cast hc
      · exact_mod_cast hc
      · exact_mod_cast hc
  · rw [if_neg hreal] at hc
    cases v <;> simp only [reduceCtorEq] at hc
    rename_i s
    simp only [Sem.const] at ha
    by_cases h1 : (s == "neginf") = true
    · rw [if_pos h1] at hc
      have hs : s = "neginf" := by simpa using h1
      subst hs
      rw [L.named_neginf] at ha
      cases ha; cases hc
      cases q <;> simp [SignFact, EV.lt, EV.le]
    · rw [if_neg h1] at hc
      by_cases h2 : namedNaN s = true
      · rw [if_pos h2] at hc; cases hc
      · rw [if_neg h2] at hc
        by_cases h3 : namedKnown s = true
        · rw [if_pos h3] at hc
          cases hc
          have hnn : s ≠ "neginf" := by simpa using h1
          have hnan : s ≠ "nan" ∧ s ≠ "undefined" := by
            simp only [namedNaN, Bool.or_eq_true, beq_iff_eq, not_or] at h2
            exact ⟨h2.2, h2.1⟩
          by_cases hp : s = "posinf"
          · subst hp
            rw [L.named_posinf] at ha
            cases ha
            cases q <;> simp [SignFact, EV.lt, EV.le]
          · obtain ⟨x, hx, hpos, _, _⟩ := L.named_fin s h3 hp hnn hnan.1 hnan.2
            rw [hx] at ha
            cases ha
            rw [signFact_fin]
            cases q <;> simp only [sf]
            · exact hpos
            · exact le_of_lt hpos
        · rw [if_neg h3] at hc; cases hc

theorem unSign_sound (L : S.Laws) {q b : Bool} {k : K1} {s : Signs} {a v : EV K}
    (ih : ∀ q b, s.get q = .ok (some b) → SignFact q b a)
    (h : unSign q k s = .ok (some b)) (hv : S.un k a = some v) : SignFact q b v := by
  cases k <;> simp only [unSign] at h <;> simp only [Sem.un] at hv
  case negative => cases hv; exact signFact_neg (ih _ _ h)
  case positive => cases hv; exact ih _ _ h
  case sqrt =>
    cases a <;> simp at hv
    rename_i x
    obtain ⟨hx0, hv⟩ := hv
    obtain ⟨hok, rfl⟩ := arith_eq_some hv
    rw [signFact_fin]
    apply sf_rnd L hok
    cases q
    · simp only [Bool.false_eq_true, if_false] at h
      obtain ⟨p, hp, h1, h2⟩ := firstM_ok h
      simp only [List.mem_singleton] at hp
      subst hp
      simp only at h1 h2
      subst h2
      simp only [bind_eq_ok, pure_eq_ok] at h1
      obtain ⟨o, ho, h1⟩ := h1
      rw [isF_iff] at h1
      subst h1
      have := ih _ _ ho
      rw [signFact_fin] at this
      exact L.sqrt_pos _ this
    · simp only [if_true] at h
      obtain ⟨p, hp, h1, h2⟩ := firstM_ok h
      simp only [List.mem_singleton] at hp
      subst hp
      simp only at h1 h2
      subst h2
      exact L.sqrt_nonneg _ hx0
  case absolute =>
    cases hv
    cases q
    · simp only [Bool.false_eq_true, if_false] at h
      obtain ⟨p, hp, h1, h2⟩ := firstM_ok h
      simp only [List.mem_cons, List.mem_singleton, List.not_mem_nil, or_false] at hp
      rcases hp with rfl | rfl <;>
      · simp only at h1 h2
        subst h2
        simp only [bind_eq_ok, pure_eq_ok] at h1
        obtain ⟨o, ho, h1⟩ := h1
        rw [isF_iff] at h1
        subst h1
        have := ih _ _ ho
        cases a with
        | fin x =>
          rw [signFact_fin] at this
          simp only [EV.abs, signFact_fin, sf] at *
          first
            | exact abs_pos.2 (ne_of_gt this)
            | exact abs_pos.2 (ne_of_lt this)
        | ninf => simp [SignFact, EV.abs, EV.lt]
        | pinf => simp [SignFact, EV.abs, EV.lt]
    · simp only [if_true, pure_eq_ok, Option.some.injEq] at h
      subst h
      cases a <;> simp [SignFact, EV.abs, EV.lt, EV.le]
  case square =>
    cases a <;> simp at hv
    rename_i x
    obtain ⟨hok, rfl⟩ := arith_eq_some hv
    rw [signFact_fin]
    apply sf_rnd L hok
    cases q
    · simp only [Bool.false_eq_true, if_false] at h
      obtain ⟨p, hp, h1, h2⟩ := firstM_ok h
      simp only [List.mem_cons, List.mem_singleton, List.not_mem_nil, or_false] at hp
      rcases hp with rfl | rfl <;>
      · simp only at h1 h2
        subst h2
        simp only [bind_eq_ok, pure_eq_ok] at h1
        obtain ⟨o, ho, h1⟩ := h1
        rw [isF_iff] at h1
        subst h1
        have := ih _ _ ho
        rw [signFact_fin] at this
        simp only [sf] at *
        first
          | exact mul_pos this this
          | exact mul_pos_of_neg_of_neg this this
    · simp only [if_true, pure_eq_ok, Option.some.injEq] at h
      subst h
      exact mul_self_nonneg x
  all_goals simp at h

theorem andT_facts {sx sy : Signs} {a c : EV K} {q1 q2 : Bool} {p p' : Option Bool → Bool} {b1 b2 : Bool}
    (hp : ∀ o, p o = true → o = some b1) (hp' : ∀ o, p' o = true → o = some b2)
    (ihx : ∀ q b, sx.get q = .ok (some b) → SignFact q b a)
    (ihy : ∀ q b, sy.get q = .ok (some b) → SignFact q b c)
    (h : andT (sx.get q1) p (sy.get q2) p' = .ok true) : SignFact q1 b1 a ∧ SignFact q2 b2 c := by
  obtain ⟨o1, o2, h1, h2, h3, h4⟩ := andT_ok_true h
  have e1 := hp _ h2
  have e2 := hp' _ h4
  subst e1 e2
  exact ⟨ihx _ _ h1, ihy _ _ h3⟩

theorem truthy_some (o : Option Bool) (h : truthy o = true) : o = some true := truthy_iff.1 h
theorem isF_some (o : Option Bool) (h : isF o = true) : o = some false := isF_iff.1 h

theorem binSign_sound (L : S.Laws) {q b : Bool} {k : K2} {same : Bool} {sx sy : Signs} {a c v : EV K}
    (ihx : ∀ q b, sx.get q = .ok (some b) → SignFact q b a)
    (ihy : ∀ q b, sy.get q = .ok (some b) → SignFact q b c)
    (hsame : same = true → a = c)
    (h : binSign q k same sx sy = .ok (some b)) (hv : S.bin k a c = some v) : SignFact q b v := by
  cases k <;> simp only [binSign] at h <;> simp only [Sem.bin] at hv
  case add =>
    cases a <;> cases c <;> simp at hv
    rename_i x y
    obtain ⟨hok, rfl⟩ := arith_eq_some hv
    rw [signFact_fin]
    apply sf_rnd L hok
    obtain ⟨p, hp, h1, h2⟩ := firstM_ok h
    simp only [List.mem_cons, List.mem_singleton, List.not_mem_nil, or_false] at hp
    rcases hp with rfl | rfl
    · simp only at h1 h2; subst h2
      obtain ⟨f1, f2⟩ := andT_facts truthy_some truthy_some ihx ihy h1
      rw [signFact_fin] at f1 f2
      cases q <;> simp only [sf] at * <;> linarith
    · simp only at h1 h2; subst h2
      obtain ⟨f1, f2⟩ := andT_facts isF_some isF_some ihx ihy h1
      rw [signFact_fin] at f1 f2
      cases q <;> simp only [sf] at * <;> linarith
  case subtract =>
    cases a <;> cases c <;> simp at hv
    rename_i x y
    obtain ⟨hok, rfl⟩ := arith_eq_some hv
    rw [signFact_fin]
    apply sf_rnd L hok
    obtain ⟨p, hp, h1, h2⟩ := firstM_ok h
    simp only [List.mem_cons, List.mem_singleton, List.not_mem_nil, or_false] at hp
    rcases hp with rfl | rfl
    · simp only at h1 h2; subst h2
      obtain ⟨f1, f2⟩ := andT_facts truthy_some truthy_some ihx ihy h1
      rw [signFact_fin] at f1 f2
      cases q <;> simp only [sf, Bool.not_true, Bool.not_false] at * <;> linarith
    · simp only at h1 h2; subst h2
      obtain ⟨f1, f2⟩ := andT_facts isF_some isF_some ihx ihy h1
      rw [signFact_fin] at f1 f2
      cases q <;> simp only [sf, Bool.not_true, Bool.not_false] at * <;> linarith
  case multiply =>
    cases a <;> cases c <;> simp at hv
    rename_i x y
    obtain ⟨hok, rfl⟩ := arith_eq_some hv
    rw [signFact_fin]
    apply sf_rnd L hok
    cases q
    · simp only [Bool.false_eq_true, if_false] at h
      obtain ⟨p, hp, h1, h2⟩ := firstM_ok h
      simp only [List.mem_cons, List.mem_singleton, List.not_mem_nil, or_false] at hp
      rcases hp with rfl | rfl | rfl | rfl <;> (simp only at h1 h2; subst h2)
      · obtain ⟨f1, f2⟩ := andT_facts truthy_some isF_some ihx ihy h1
        rw [signFact_fin] at f1 f2; exact sf_mul_np_pos f1 f2
      · obtain ⟨f1, f2⟩ := andT_facts truthy_some isF_some ihx ihy h1
        rw [signFact_fin] at f1 f2; exact sf_mul_nn_neg f1 f2
      · obtain ⟨f1, f2⟩ := andT_facts isF_some isF_some ihx ihy h1
        rw [signFact_fin] at f1 f2; exact sf_mul_neg_neg f1 f2
      · obtain ⟨f1, f2⟩ := andT_facts isF_some isF_some ihx ihy h1
        rw [signFact_fin] at f1 f2; exact sf_mul_pos_pos f1 f2
    · simp only [if_true] at h
      obtain ⟨p, hp, h1, h2⟩ := firstM_ok h
      simp only [List.mem_cons, List.mem_singleton, List.not_mem_nil, or_false] at hp
      rcases hp with rfl | rfl | rfl | rfl | rfl <;> (simp only at h1 h2; subst h2)
      · obtain ⟨f1, f2⟩ := andT_facts truthy_some truthy_some ihx ihy h1
        rw [signFact_fin] at f1 f2; exact sf_mul_tt f1 f2
      · obtain ⟨f1, f2⟩ := andT_facts truthy_some truthy_some ihx ihy h1
        rw [signFact_fin] at f1 f2; exact sf_mul_ff_tt f1 f2
      · simp only [pure_eq_ok] at h1
        have := hsame h1
        cases this
        exact mul_self_nonneg x
      · obtain ⟨f1, f2⟩ := andT_facts isF_some isF_some ihx ihy h1
        rw [signFact_fin] at f1 f2; exact sf_mul_neg_pos f1 f2
      · obtain ⟨f1, f2⟩ := andT_facts isF_some isF_some ihx ihy h1
        rw [signFact_fin] at f1 f2; exact sf_mul_pos_neg f1 f2
  case divide =>
    cases a <;> cases c <;> simp at hv
    rename_i x y
    obtain ⟨hy0, hv⟩ := hv
    obtain ⟨hok, rfl⟩ := arith_eq_some hv
    rw [signFact_fin]
    apply sf_rnd L hok
    rw [div_eq_mul_inv]
    cases q
    · simp only [Bool.false_eq_true, if_false] at h
      obtain ⟨p, hp, h1, h2⟩ := firstM_ok h
      simp only [List.mem_cons, List.mem_singleton, List.not_mem_nil, or_false] at hp
      rcases hp with rfl | rfl | rfl | rfl <;> (simp only at h1 h2; subst h2)
      · obtain ⟨f1, f2⟩ := andT_facts truthy_some isF_some ihx ihy h1
        rw [signFact_fin] at f1 f2; exact sf_mul_np_pos f1 (sf_inv f2)
      · obtain ⟨f1, f2⟩ := andT_facts truthy_some isF_some ihx ihy h1
        rw [signFact_fin] at f1 f2; exact sf_mul_nn_neg f1 (sf_inv f2)
      · obtain ⟨f1, f2⟩ := andT_facts isF_some isF_some ihx ihy h1
        rw [signFact_fin] at f1 f2; exact sf_mul_neg_neg f1 (sf_inv f2)
      · obtain ⟨f1, f2⟩ := andT_facts isF_some isF_some ihx ihy h1
        rw [signFact_fin] at f1 f2; exact sf_mul_pos_pos f1 (sf_inv f2)
    · simp only [if_true] at h
      obtain ⟨p, hp, h1, h2⟩ := firstM_ok h
      simp only [List.mem_cons, List.mem_singleton, List.not_mem_nil, or_false] at hp
      rcases hp with rfl | rfl | rfl | rfl | rfl <;> (simp only at h1 h2; subst h2)
      · obtain ⟨f1, f2⟩ := andT_facts truthy_some truthy_some ihx ihy h1
        rw [signFact_fin] at f1 f2; exact sf_mul_tt f1 (sf_inv f2)
      · obtain ⟨f1, f2⟩ := andT_facts truthy_some truthy_some ihx ihy h1
        rw [signFact_fin] at f1 f2; exact sf_mul_ff_tt f1 (sf_inv f2)
      · simp only [pure_eq_ok] at h1
        have := hsame h1
        cases this
        simp only [sf]
        rw [mul_inv_cancel₀ hy0]
        exact zero_le_one
      · obtain ⟨f1, f2⟩ := andT_facts isF_some isF_some ihx ihy h1
        rw [signFact_fin] at f1 f2; exact sf_mul_neg_pos f1 (sf_inv f2)
      · obtain ⟨f1, f2⟩ := andT_facts isF_some isF_some ihx ihy h1
        rw [signFact_fin] at f1 f2; exact sf_mul_pos_neg f1 (sf_inv f2)
  all_goals simp at h

/-- **soundness of `_is_nonnegative` / `_is_nonpositive`** (and hence of `_is_positive`,
`_is_negative`) -/
theorem signs_sound (L : S.Laws) (env : Env K) :
    ∀ (e : Expr) (v : EV K), eval S env e = some v →
      ∀ q b, (signs e).get q = .ok (some b) → SignFact q b v := by
  intro e
  induction e with
  | sym n t => intro v _ q b h; exact absurd h (signs_get_sym q n t b)
  | select c x y _ _ _ => intro v _ q b h; exact absurd h (signs_get_select q c x y b)
  | const c l _ =>
    intro v hv q b h
    rw [signs_get_const] at h
    have h := seq_ok h
    simp only [pure_eq_ok] at h
    exact constSign_sound L h hv
  | un k x ih =>
    intro v hv q b h
    rw [signs_get_un] at h
    have h := seq_ok h
    simp only [eval, Option.bind_eq_bind, Option.bind_eq_some_iff] at hv
    obtain ⟨a, ha, hv⟩ := hv
    exact unSign_sound L (ih a ha) h hv
  | bin k x y ihx ihy =>
    intro v hv q b h
    rw [signs_get_bin] at h
    have h := seq_ok h
    simp only [eval, Option.bind_eq_bind, Option.bind_eq_some_iff] at hv
    obtain ⟨a, ha, c, hc, hv⟩ := hv
    refine binSign_sound L (ihx a ha) (ihy c hc) ?_ h hv
    intro hs
    simp only [Bool.and_eq_true, beq_iff_eq] at hs
    have := hs.1
    subst this
    rw [ha] at hc
    exact Option.some.inj hc

theorem isNonneg_sound (L : S.Laws) (env : Env K) {e : Expr} {v : EV K} {b : Bool}
    (hv : eval S env e = some v) (h : isNonneg e = .ok (some b)) : SignFact true b v :=
  signs_sound L env e v hv true b h

theorem isNonpos_sound (L : S.Laws) (env : Env K) {e : Expr} {v : EV K} {b : Bool}
    (hv : eval S env e = some v) (h : isNonpos e = .ok (some b)) : SignFact false b v :=
  signs_sound L env e v hv false b h

theorem onot_eq_some {o : Option Bool} {b : Bool} (h : onot o = some b) : o = some (!b) := by
  cases o with
  | none => simp [onot] at h
  | some c => simp [onot] at h; subst h; simp

/-- `_is_positive`: `some true` = positive, `some false` = nonpositive -/
theorem isPos_sound (L : S.Laws) (env : Env K) {e : Expr} {v : EV K} {b : Bool}
    (hv : eval S env e = some v) (h : isPos e = .ok (some b)) : SignFact false (!b) v := by
  simp only [isPos, bind_eq_ok, pure_eq_ok] at h
  obtain ⟨o, ho, h⟩ := h
  exact isNonpos_sound L env hv (by rw [ho, onot_eq_some h])

/-- `_is_negative`: `some true` = negative, `some false` = nonnegative -/
theorem isNeg_sound (L : S.Laws) (env : Env K) {e : Expr} {v : EV K} {b : Bool}
    (hv : eval S env e = some v) (h : isNeg e = .ok (some b)) : SignFact true (!b) v := by
  simp only [isNeg, bind_eq_ok, pure_eq_ok] at h
  obtain ⟨o, ho, h⟩ := h
  exact isNonneg_sound L env hv (by rw [ho, onot_eq_some h])

/-! ## `_is_zero`, `_is_finite`, `_is_one` -/

def ZeroFact (b : Bool) (v : EV K) : Prop :=
  match b with
  | true => v = .fin 0
  | false => v ≠ .fin 0

theorem cast_ne_zero' {p : Rat} (h : p ≠ 0) : (p : K) ≠ 0 := by exact_mod_cast h

theorem eq0_sound (L : S.Laws) {v : CVal} {a : EV K} (hn : v.isNumber = true) (ha : S.const v = some a) :
    ZeroFact v.eq0 a := by
  cases v <;> simp [CVal.isNumber] at hn
  case cplx t re im => simp [Sem.const, CVal.ext?] at ha
  case bool b =>
    cases b <;> simp [Sem.const, CVal.ext?, Sem.ofExt] at ha <;> obtain ⟨hok, rfl⟩ := arith_eq_some ha
    · simp [ZeroFact, CVal.eq0, L.rnd_zero]
    · simp [ZeroFact, CVal.eq0, L.rnd_one]
  case int n =>
    simp [Sem.const, CVal.ext?, Sem.ofExt] at ha
    obtain ⟨hok, rfl⟩ := arith_eq_some ha
    by_cases h0 : n = 0
    · subst h0; simp [ZeroFact, CVal.eq0, L.rnd_zero]
    · have hb : (n == 0) = false := by simp [h0]
      simp only [CVal.eq0, hb, ZeroFact, ne_eq, EV.fin.injEq]
      intro hz
      have := L.nz _ hok hz
      exact h0 (by exact_mod_cast this)
  case flt t bits =>
    rw [const_of_ext (x := extOfBits t.fmt bits) (by simp [CVal.isReal]) rfl] at ha
    have he : CVal.eq0 (.flt t bits) = (extOfBits t.fmt bits == ExtQ.fin 0) := by simp [CVal.eq0, extEqQ]
    rw [he]
    generalize extOfBits t.fmt bits = xx at ha ⊢
    cases xx <;> simp only [Sem.ofExt] at ha
    · cases ha
    · cases ha
      have hb : (ExtQ.ninf == ExtQ.fin 0) = false := by simp
      rw [hb]; simp [ZeroFact]
    · rename_i p
      obtain ⟨hok, rfl⟩ := arith_eq_some ha
      by_cases h0 : p = 0
      · subst h0; simp [ZeroFact, L.rnd_zero]
      · have : (ExtQ.fin p == ExtQ.fin 0) = false := by simp [h0]
        rw [this]
        simp only [ZeroFact, ne_eq, EV.fin.injEq]
        intro hz
        exact cast_ne_zero' h0 (L.nz _ hok hz)
    · cases ha
      have hb : (ExtQ.pinf == ExtQ.fin 0) = false := by simp
      rw [hb]; simp [ZeroFact]

theorem named_ne_fin (L : S.Laws) {s : String} {a : EV K} (hk : namedKnown s = true) (hnan : namedNaN s = false)
    (ha : S.named s = some a) : (a = .pinf ∨ a = .ninf ∨ ∃ x, a = .fin x ∧ 0 < x ∧ x ≠ 1) := by
  by_cases h1 : s = "posinf"
  · subst h1; rw [L.named_posinf] at ha; cases ha; exact Or.inl rfl
  by_cases h2 : s = "neginf"
  · subst h2; rw [L.named_neginf] at ha; cases ha; exact Or.inr (Or.inl rfl)
  have hnan' : s ≠ "nan" ∧ s ≠ "undefined" := by
    simp only [namedNaN, Bool.or_eq_false_iff, beq_eq_false_iff_ne] at hnan
    exact ⟨hnan.2, hnan.1⟩
  obtain ⟨x, hx, hpos, hne, _⟩ := L.named_fin s hk h1 h2 hnan'.1 hnan'.2
  rw [hx] at ha; cases ha
  exact Or.inr (Or.inr ⟨x, rfl, hpos, hne⟩)

theorem zero_generic (L : S.Laws) (env : Env K) {e : Expr} {v : EV K} {b : Bool} (hv : eval S env e = some v)
    (h : (do if (← FAVerif.Rewriter.orM (tr (isPos e)) (tr (isNeg e))) then pure (some false) else pure none : M (Option Bool)) = .ok (some b)) :
    ZeroFact b v := by
  simp only [bind_eq_ok] at h
  obtain ⟨c, hc, h⟩ := h
  cases c <;> simp at h
  subst h
  simp only [FAVerif.Rewriter.orM, bind_eq_ok] at hc
  obtain ⟨c1, h1, hc⟩ := hc
  simp only [ZeroFact, Bool.false_eq_true, if_false]
  cases c1
  · simp only [Bool.false_eq_true, if_false] at hc
    have := isNeg_sound L env hv (tr_ok_true hc)
    intro hz; subst hz
    simp [SignFact, EV.lt] at this
  · have := isPos_sound L env hv (tr_ok_true h1)
    intro hz; subst hz
    simp [SignFact, EV.lt] at this

theorem isZero_sound (L : S.Laws) (env : Env K) :
    ∀ (e : Expr) (v : EV K) (b : Bool), eval S env e = some v → isZero e = .ok (some b) → ZeroFact b v := by
  intro e
  induction e with
  | sym n t => intro v b hv h; exact zero_generic L env hv (by simpa [isZero] using h)
  | select c x y _ _ _ => intro v b hv h; exact zero_generic L env hv (by simpa [isZero] using h)
  | bin k x y _ _ => intro v b hv h; exact zero_generic L env hv (by simpa [isZero] using h)
  | const c l _ =>
    intro v b hv h
    simp only [isZero] at h
    simp only [eval] at hv
    split_ifs at h with hn
    · simp only [pure_eq_ok, Option.some.injEq] at h
      subst h
      exact eq0_sound L hn hv
    · cases c <;> simp at h
      rename_i s
      split_ifs at h with h1 h2 <;> simp at h
      subst h
      rcases named_ne_fin L h2 (by simpa using h1) (by simpa [Sem.const] using hv) with r | r | ⟨x, r, hp, _⟩ <;>
        subst r <;> simp [ZeroFact]
      exact ne_of_gt hp
  | un k x ih =>
    intro v b hv h
    have hv' := hv
    simp only [eval, Option.bind_eq_bind, Option.bind_eq_some_iff] at hv'
    obtain ⟨a, ha, hva⟩ := hv'
    cases k
    case sqrt =>
      simp only [isZero, bind_eq_ok] at h
      obtain ⟨c, _, h⟩ := h
      cases c <;> simp at h
      have := ih a b ha h
      cases a <;> simp [Sem.un] at hva
      rename_i x'
      obtain ⟨hx0, hva⟩ := hva
      obtain ⟨hok, rfl⟩ := arith_eq_some hva
      cases b <;> simp only [ZeroFact, Bool.false_eq_true, if_false, if_true, ne_eq, EV.fin.injEq] at *
      · intro hz
        have h1 := L.nz _ hok hz
        have h2 := L.sqrt_mul_self _ hx0
        rw [h1] at h2
        exact this (by linarith)
      · subst this
        have := L.sqrt_sq 0 le_rfl
        simp only [mul_zero] at this
        rw [this, L.rnd_zero]
    case square =>
      simp only [isZero] at h
      have := ih a b ha h
      cases a <;> simp [Sem.un] at hva
      obtain ⟨hok, rfl⟩ := arith_eq_some hva
      cases b <;> simp only [ZeroFact, Bool.false_eq_true, if_false, if_true, ne_eq, EV.fin.injEq] at *
      · intro hz
        have h1 := L.nz _ hok hz
        exact this (by simpa using h1)
      · subst this; simp [L.rnd_zero]
    case absolute =>
      simp only [isZero] at h
      have := ih a b ha h
      simp only [Sem.un, Option.some.injEq] at hva
      subst hva
      cases a <;> cases b <;> simp_all [ZeroFact, EV.abs]
    all_goals exact zero_generic L env hv (by simpa [isZero] using h)

def FinFact (b : Bool) (v : EV K) : Prop :=
  match b with
  | true => ∃ x, v = .fin x
  | false => v = .pinf ∨ v = .ninf

theorem allFinite_true {l : List (M (Option Bool))} (h : allFinite l = .ok (some true)) :
    ∀ m ∈ l, m = .ok (some true) := by
  induction l with
  | nil => simp
  | cons m rest ih =>
    simp only [allFinite, bind_eq_ok] at h
    obtain ⟨o, ho, h⟩ := h
    rcases o with _ | _ | _ <;> simp at h
    intro m' hm'
    simp only [List.mem_cons] at hm'
    rcases hm' with rfl | hm'
    · exact ho
    · exact ih h m' hm'

theorem allFinite_false {l : List (M (Option Bool))} (h : allFinite l = .ok (some false)) :
    ∃ m ∈ l, m = .ok (some false) := by
  induction l with
  | nil => simp [allFinite] at h
  | cons m rest ih =>
    simp only [allFinite, bind_eq_ok] at h
    obtain ⟨o, ho, h⟩ := h
    rcases o with _ | _ | _ <;> simp at h
    · exact ⟨m, by simp, ho⟩
    · obtain ⟨m', hm', h'⟩ := ih h
      exact ⟨m', by simp [hm'], h'⟩

theorem finFact_fin_false {x : K} (h : FinFact false (.fin x : EV K)) : False := by
  simp [FinFact] at h

theorem arith_fin {z : K} {v : EV K} (h : S.arith z = some v) : ∃ x, v = .fin x := by
  obtain ⟨_, rfl⟩ := arith_eq_some h; exact ⟨_, rfl⟩

theorem isFinite_sound (L : S.Laws) (env : Env K) :
    ∀ (e : Expr) (v : EV K) (b : Bool), eval S env e = some v → isFinite e = .ok (some b) → FinFact b v := by
  intro e
  induction e with
  | sym n t => intro v b hv h; simp [isFinite] at h
  | select c x y _ _ _ => intro v b hv h; simp [isFinite] at h
  | const c l _ =>
    intro v b hv h
    simp only [eval] at hv
    cases c <;> simp only [isFinite] at h
    case name s =>
      split_ifs at h with h1 h2 h3 <;> simp at h
      · subst h
        simp only [Sem.const] at hv
        simp only [Bool.or_eq_true, beq_iff_eq] at h1
        rcases h1 with rfl | rfl
        · rw [L.named_posinf] at hv; cases hv; simp [FinFact]
        · rw [L.named_neginf] at hv; cases hv; simp [FinFact]
      · subst h
        simp only [Bool.or_eq_true, beq_iff_eq, not_or] at h1
        rcases named_ne_fin L h3 (by simpa using h2) (by simpa [Sem.const] using hv) with r | r | ⟨x, r, _, _⟩
        · subst r
          exfalso
          by_cases hp : s = "posinf"
          · exact h1.1 hp
          · have hnan : s ≠ "nan" ∧ s ≠ "undefined" := by
              simp only [namedNaN, Bool.or_eq_true, beq_iff_eq, not_or] at h2
              exact ⟨h2.2, h2.1⟩
            obtain ⟨x, hx, _⟩ := L.named_fin s h3 hp h1.2 hnan.1 hnan.2
            simp only [Sem.const] at hv
            rw [hx] at hv; cases hv
        · subst r
          exfalso
          have hnan : s ≠ "nan" ∧ s ≠ "undefined" := by
            simp only [namedNaN, Bool.or_eq_true, beq_iff_eq, not_or] at h2
            exact ⟨h2.2, h2.1⟩
          obtain ⟨x, hx, _⟩ := L.named_fin s h3 h1.1 h1.2 hnan.1 hnan.2
          simp only [Sem.const] at hv
          rw [hx] at hv; cases hv
        · subst r; exact ⟨x, rfl⟩
    case flt t bits =>
      simp only [pure_eq_ok, Option.some.injEq] at h
      subst h
      simp only [Sem.const, CVal.ext?] at hv
      generalize extOfBits t.fmt bits = xx at hv ⊢
      cases xx <;> simp only [Sem.ofExt] at hv
      · cases hv
      · cases hv; simp [FinFact, ExtQ.isFinite]
      · simp only [ExtQ.isFinite, FinFact, if_true]; exact arith_fin hv
      · cases hv; simp [FinFact, ExtQ.isFinite]
    case int n =>
      simp only [pure_eq_ok, Option.some.injEq] at h; subst h
      simp only [Sem.const, CVal.ext?, Sem.ofExt] at hv
      exact arith_fin hv
    case bool n =>
      simp only [pure_eq_ok, Option.some.injEq] at h; subst h
      simp only [Sem.const, CVal.ext?, Sem.ofExt] at hv
      exact arith_fin hv
    all_goals simp at h
  | un k x ih =>
    intro v b hv h
    simp only [eval, Option.bind_eq_bind, Option.bind_eq_some_iff] at hv
    obtain ⟨a, ha, hva⟩ := hv
    cases k <;> simp only [isFinite] at h
    case sqrt =>
      simp only [bind_eq_ok] at h
      obtain ⟨c, _, h⟩ := h
      cases c <;> simp at h
      subst h
      cases a <;> simp [Sem.un] at hva
      exact arith_fin hva.2
    case positive =>
      simp only [Sem.un, Option.some.injEq] at hva; subst hva
      cases b
      · obtain ⟨m, hm, h'⟩ := allFinite_false h
        simp only [List.mem_singleton] at hm; subst hm
        exact ih _ _ ha h'
      · exact ih _ _ ha (allFinite_true h _ (by simp))
    case negative =>
      simp only [Sem.un, Option.some.injEq] at hva; subst hva
      cases b
      · obtain ⟨m, hm, h'⟩ := allFinite_false h
        simp only [List.mem_singleton] at hm; subst hm
        have := ih _ _ ha h'
        cases a <;> simp_all [FinFact, EV.neg]
      · have := ih _ _ ha (allFinite_true h _ (by simp))
        cases a <;> simp_all [FinFact, EV.neg]
    case absolute =>
      simp only [Sem.un, Option.some.injEq] at hva; subst hva
      cases b
      · obtain ⟨m, hm, h'⟩ := allFinite_false h
        simp only [List.mem_singleton] at hm; subst hm
        have := ih _ _ ha h'
        cases a <;> simp_all [FinFact, EV.abs]
      · have := ih _ _ ha (allFinite_true h _ (by simp))
        cases a <;> simp_all [FinFact, EV.abs]
    case square =>
      cases a <;> simp [Sem.un] at hva
      cases b
      · obtain ⟨m, hm, h'⟩ := allFinite_false h
        simp only [List.mem_singleton] at hm; subst hm
        exact absurd (ih _ _ ha h') (by simp [FinFact])
      · exact arith_fin hva
    all_goals simp at h
  | bin k x y ihx ihy =>
    intro v b hv h
    simp only [eval, Option.bind_eq_bind, Option.bind_eq_some_iff] at hv
    obtain ⟨a, ha, c, hc, hva⟩ := hv
    have key : ∀ (z : K), S.arith z = some v → (∃ x', a = .fin x') → (∃ y', c = .fin y') →
        ((b = false → isFinite x = .ok (some false) ∨ isFinite y = .ok (some false)) → FinFact b v) := by
      intro z hz hxa hyc hb
      cases b
      · exfalso
        rcases hb rfl with h' | h'
        · obtain ⟨x', rfl⟩ := hxa
          exact finFact_fin_false (ihx _ _ ha h')
        · obtain ⟨y', rfl⟩ := hyc
          exact finFact_fin_false (ihy _ _ hc h')
      · exact arith_fin hz
    cases k <;> simp only [isFinite] at h
    case add =>
      cases a <;> cases c <;> simp [Sem.bin] at hva
      refine key _ hva ⟨_, rfl⟩ ⟨_, rfl⟩ ?_
      rintro rfl
      obtain ⟨m, hm, h'⟩ := allFinite_false h
      simp only [List.mem_cons, List.mem_singleton, List.not_mem_nil, or_false] at hm
      rcases hm with rfl | rfl <;> simp [h']
    case subtract =>
      cases a <;> cases c <;> simp [Sem.bin] at hva
      refine key _ hva ⟨_, rfl⟩ ⟨_, rfl⟩ ?_
      rintro rfl
      obtain ⟨m, hm, h'⟩ := allFinite_false h
      simp only [List.mem_cons, List.mem_singleton, List.not_mem_nil, or_false] at hm
      rcases hm with rfl | rfl <;> simp [h']
    case multiply =>
      cases a <;> cases c <;> simp [Sem.bin] at hva
      refine key _ hva ⟨_, rfl⟩ ⟨_, rfl⟩ ?_
      rintro rfl
      obtain ⟨m, hm, h'⟩ := allFinite_false h
      simp only [List.mem_cons, List.mem_singleton, List.not_mem_nil, or_false] at hm
      rcases hm with rfl | rfl <;> simp [h']
    case divide =>
      cases a <;> cases c <;> simp [Sem.bin] at hva
      rename_i x' y'
      obtain ⟨hy0, hva⟩ := hva
      refine key _ hva ⟨_, rfl⟩ ⟨_, rfl⟩ ?_
      rintro rfl
      simp only [bind_eq_ok] at h
      obtain ⟨vc, hvc, h⟩ := h
      cases vc with
      | some r =>
        simp only [pure_eq_ok] at h
        subst h
        -- the constant-divisor shortcuts
        cases y with
        | const yv yl => ?_
        | _ => simp at hvc
        simp only [bind_eq_ok] at hvc
        obtain ⟨cz, hcz, hvc⟩ := hvc
        cases cz
        · simp only [Bool.false_eq_true, if_false] at hvc
          split_ifs at hvc with hinf
          · simp only [bind_eq_ok, pure_eq_ok, Option.some.injEq] at hvc
            obtain ⟨o, ho, hvc⟩ := hvc
            subst hvc
            exact Or.inl ho
          · simp at hvc
        · -- divisor is a zero constant: the division is undefined
          exfalso
          have := isZero_sound L env _ _ _ hc (tr_ok_true hcz)
          simp only [ZeroFact, if_true, EV.fin.injEq] at this
          exact hy0 this
      | none =>
        simp only [bind_eq_ok] at h
        obtain ⟨o, ho, h⟩ := h
        rcases o with _ | _ | _ <;> simp at h
        · exact Or.inl ho
        · exact Or.inr h
    all_goals simp at h

end FAVerif.Rewriter
