/-
Lemmas for C16 (polynomial utilities).  The model `FAVerif.Models.Poly` is instantiated with
Mathlib's `CommRing` / `Field`; specifications are `evalPoly` (Σ cᵢ xⁱ) and `toPoly`
(the Mathlib polynomial with the given coefficient list).
-/
import FAVerif.Models.Poly
import Mathlib.Algebra.Polynomial.Derivative
import Mathlib.Algebra.Polynomial.Taylor
import Mathlib.Algebra.Polynomial.FieldDivision
import Mathlib.Tactic.Ring
import Mathlib.Tactic.Linarith

namespace FAVerif.Poly
open Polynomial

section Spec
variable {α : Type} [CommRing α]

/-- value of the polynomial with coefficient list `cs` (lowest degree first) at `x` -/
def evalPoly : List α → α → α
  | [], _ => 0
  | c :: cs, x => c + x * evalPoly cs x

/-- the Mathlib polynomial with coefficient list `cs` (lowest degree first) -/
noncomputable def toPoly : List α → α[X]
  | [] => 0
  | c :: cs => C c + X * toPoly cs

@[simp] theorem evalPoly_nil (x : α) : evalPoly ([] : List α) x = 0 := rfl
@[simp] theorem evalPoly_cons (c : α) (cs : List α) (x : α) : evalPoly (c :: cs) x = c + x * evalPoly cs x := rfl
@[simp] theorem toPoly_nil : toPoly ([] : List α) = 0 := rfl
@[simp] theorem toPoly_cons (c : α) (cs : List α) : toPoly (c :: cs) = C c + X * toPoly cs := rfl

theorem eval_toPoly (cs : List α) (x : α) : (toPoly cs).eval x = evalPoly cs x := by
  induction cs with
  | nil => simp
  | cons c cs ih => simp [ih]

theorem coeff_toPoly (cs : List α) (i : ℕ) : (toPoly cs).coeff i = cs.getD i 0 := by
  induction cs generalizing i with
  | nil => simp
  | cons c cs ih =>
    cases i with
    | zero => simp
    | succ i => simp [ih, coeff_C_succ]

theorem evalPoly_eq_sum (cs : List α) (x : α) :
    evalPoly cs x = ∑ i ∈ Finset.range cs.length, cs.getD i 0 * x ^ i := by
  induction cs with
  | nil => simp
  | cons c cs ih =>
    rw [evalPoly_cons, ih, List.length_cons, Finset.sum_range_succ', Finset.mul_sum]
    simp only [List.getD_cons_succ, List.getD_cons_zero, pow_zero, mul_one]
    rw [add_comm]
    congr 1
    apply Finset.sum_congr rfl
    intro i _
    ring

theorem toPoly_eq_sum (cs : List α) :
    toPoly cs = ∑ i ∈ Finset.range cs.length, C (cs.getD i 0) * X ^ i := by
  induction cs with
  | nil => simp
  | cons c cs ih =>
    rw [toPoly_cons, ih, List.length_cons, Finset.sum_range_succ', Finset.mul_sum]
    simp only [List.getD_cons_succ, List.getD_cons_zero, pow_zero, mul_one]
    rw [add_comm]
    congr 1
    apply Finset.sum_congr rfl
    intro i _
    ring

theorem evalPoly_append (a b : List α) (x : α) :
    evalPoly (a ++ b) x = evalPoly a x + x ^ a.length * evalPoly b x := by
  induction a with
  | nil => simp
  | cons c a ih => simp [ih, pow_succ]; ring

theorem toPoly_append (a b : List α) :
    toPoly (a ++ b) = toPoly a + X ^ a.length * toPoly b := by
  induction a with
  | nil => simp
  | cons c a ih => simp [ih, pow_succ]; ring

theorem evalPoly_take_drop (cs : List α) (d : ℕ) (h : d ≤ cs.length) (x : α) :
    evalPoly cs x = evalPoly (cs.take d) x + x ^ d * evalPoly (cs.drop d) x := by
  conv_lhs => rw [← List.take_append_drop d cs]
  rw [evalPoly_append, List.length_take, Nat.min_eq_left h]

theorem evalPoly_replicate_zero (n : ℕ) (x : α) : evalPoly (List.replicate n (0 : α)) x = 0 := by
  induction n with
  | zero => simp
  | succ n ih => simp [List.replicate_succ, ih]

theorem toPoly_replicate_zero (n : ℕ) : toPoly (List.replicate n (0 : α)) = 0 := by
  induction n with
  | zero => simp
  | succ n ih => simp [List.replicate_succ, ih]

end Spec

/-! ### fast_exponent_by_squaring -/
section Pow
variable {α : Type} [CommRing α]

theorem fastPowFuel_eq (x : α) : ∀ fuel n, n ≤ fuel → fastPowFuel x fuel n = x ^ n := by
  intro fuel
  induction fuel with
  | zero => intro n h; obtain rfl : n = 0 := by omega
            simp [fastPowFuel]
  | succ f ih =>
    intro n h
    match n, h with
    | 0, _ => simp [fastPowFuel]
    | 1, _ => simp [fastPowFuel]
    | 2, _ => simp [fastPowFuel, pow_two]
    | n + 3, h =>
      have hr := ih ((n + 3) / 2) (by omega)
      simp only [fastPowFuel, hr]
      split
      · rw [← pow_add]; congr 1; omega
      · rw [← pow_add, ← pow_succ]; congr 1; omega

theorem fastPow_eq (x : α) (n : ℕ) : fastPow x n = x ^ n := fastPowFuel_eq x n n (Nat.le_refl n)

theorem Fpa.fastPowFuel_eq (x : α) : ∀ fuel n, n ≤ fuel → Fpa.fastPowFuel x fuel n = x ^ n := by
  intro fuel
  induction fuel with
  | zero => intro n h; obtain rfl : n = 0 := by omega
            simp [Fpa.fastPowFuel]
  | succ f ih =>
    intro n h
    match n, h with
    | 0, _ => simp [Fpa.fastPowFuel]
    | 1, _ => simp [Fpa.fastPowFuel]
    | 2, _ => simp [Fpa.fastPowFuel, pow_two]
    | n + 3, h =>
      have hr := ih ((n + 3) / 2) (by omega)
      simp only [Fpa.fastPowFuel, hr]
      split
      · rw [← pow_add]; congr 1; omega
      · rw [← pow_add, ← pow_succ]; congr 1; omega

theorem Fpa.fastPow_eq (x : α) (n : ℕ) : Fpa.fastPow x n = x ^ n := Fpa.fastPowFuel_eq x n n (Nat.le_refl n)

end Pow

/-! ### fast_polynomial -/
section FastPoly
variable {α : Type} [CommRing α]

theorem foldl_range'_add (f : ℕ → α) (n : ℕ) : ∀ (s : ℕ) (a : α),
    (List.range' s n).foldl (fun acc i => acc + f i) a = a + ∑ i ∈ Finset.range n, f (s + i) := by
  induction n with
  | zero => intro s a; simp
  | succ n ih =>
    intro s a
    rw [List.range'_succ, List.foldl_cons, ih, Finset.sum_range_succ']
    simp only [Nat.add_zero]
    rw [add_assoc]
    congr 1
    rw [add_comm]
    congr 1
    apply Finset.sum_congr rfl
    intro i _
    congr 1
    omega

theorem d0Branch_eq (x : α) (cs : List α) (h : cs ≠ []) : d0Branch x cs = evalPoly cs x := by
  obtain ⟨c, cs, rfl⟩ := List.exists_cons_of_ne_nil h
  unfold d0Branch
  rw [foldl_range'_add (fun i => (c :: cs).getD i 0 * fastPow x i)]
  rw [evalPoly_eq_sum, List.length_cons, Finset.sum_range_succ']
  simp only [Nat.add_sub_cancel, List.getD_cons_zero, pow_zero, mul_one, fastPow_eq]
  rw [add_comm]
  congr 1
  apply Finset.sum_congr rfl
  intro i _
  rw [Nat.add_comm 1 i]

theorem Fpa.d0Branch_eq (x : α) (cs : List α) (h : cs ≠ []) : Fpa.d0Branch x cs = evalPoly cs x := by
  obtain ⟨c, cs, rfl⟩ := List.exists_cons_of_ne_nil h
  unfold Fpa.d0Branch
  rw [foldl_range'_add (fun i => (c :: cs).getD i 0 * Fpa.fastPow x i)]
  rw [evalPoly_eq_sum, List.length_cons, Finset.sum_range_succ']
  simp only [Nat.add_sub_cancel, List.getD_cons_zero, pow_zero, mul_one, Fpa.fastPow_eq]
  rw [add_comm]
  congr 1
  apply Finset.sum_congr rfl
  intro i _
  rw [Nat.add_comm 1 i]

/-- A scheme is admissible up to sub-problem size `n` (= largest `N = len - 1` that can occur)
when it never asks for a split point beyond the sub-problem: `scheme(k, N0) ≤ k` for `2 ≤ k ≤ n`.
(`d = 0` is allowed: the reduced polynomial is then evaluated directly.) -/
def SchemeOK (σ : Scheme) (N0 n : ℕ) : Prop := ∀ k, 2 ≤ k → k ≤ n → σ k N0 ≤ k

theorem fastPolyRec_eq (x : α) (N0 : ℕ) (σ : Scheme) : ∀ (fuel : ℕ) (alt : Scheme) (cs : List α),
    cs ≠ [] → cs.length ≤ fuel → SchemeOK σ N0 (cs.length - 1) → SchemeOK alt N0 (cs.length - 1) →
    fastPolyRec fuel σ alt N0 x cs = evalPoly cs x := by
  intro fuel
  induction fuel with
  | zero => intro alt cs hne hlen; cases cs <;> simp_all
  | succ fuel ih =>
    intro alt cs hne hlen hσ halt
    match cs, hne, hlen, hσ, halt with
    | [c0], _, _, _, _ => simp [fastPolyRec]
    | [c0, c1], _, _, _, _ => simp [fastPolyRec]; ring
    | c0 :: c1 :: c2 :: rest, _, hlen, hσ, halt =>
      simp only [fastPolyRec]
      set cs := c0 :: c1 :: c2 :: rest with hcs
      have hL : cs.length = rest.length + 3 := by simp [hcs]
      set d := (if cs.length > 500 then alt (cs.length - 1) N0 else σ (cs.length - 1) N0) with hd
      have hdle : d ≤ cs.length - 1 := by
        rw [hd]; split
        · exact halt _ (by omega) (Nat.le_refl _)
        · exact hσ _ (by omega) (Nat.le_refl _)
      split
      · exact d0Branch_eq x cs (by simp [hcs])
      · rename_i hd0
        have hd1 : 1 ≤ d := Nat.one_le_iff_ne_zero.mpr hd0
        have hσ' : ∀ m, m ≤ cs.length - 1 → SchemeOK σ N0 m := fun m hm k h2 hk => hσ k h2 (by omega)
        have ha := ih σ (cs.drop d) (by simp [List.drop_eq_nil_iff]; omega)
          (by rw [List.length_drop]; omega)
          (hσ' _ (by rw [List.length_drop]; omega)) (hσ' _ (by rw [List.length_drop]; omega))
        have hb := ih σ (cs.take d) (by simp [List.take_eq_nil_iff]; omega)
          (by rw [List.length_take]; omega)
          (hσ' _ (by rw [List.length_take]; omega)) (hσ' _ (by rw [List.length_take]; omega))
        rw [ha, hb, fastPow_eq, evalPoly_take_drop cs d (by omega) x]
        ring

theorem Fpa.fastPolyRec_eq (x : α) (N0 : ℕ) (σ : Scheme) : ∀ (fuel : ℕ) (cs : List α),
    cs ≠ [] → cs.length ≤ fuel → SchemeOK σ N0 (cs.length - 1) →
    Fpa.fastPolyRec fuel σ N0 x cs = evalPoly cs x := by
  intro fuel
  induction fuel with
  | zero => intro cs hne hlen; cases cs <;> simp_all
  | succ fuel ih =>
    intro cs hne hlen hσ
    match cs, hne, hlen, hσ with
    | [c0], _, _, _ => simp [Fpa.fastPolyRec]
    | [c0, c1], _, _, _ => simp [Fpa.fastPolyRec]; ring
    | c0 :: c1 :: c2 :: rest, _, hlen, hσ =>
      simp only [Fpa.fastPolyRec]
      set cs := c0 :: c1 :: c2 :: rest with hcs
      have hL : cs.length = rest.length + 3 := by simp [hcs]
      set d := σ (cs.length - 1) N0 with hd
      have hdle : d ≤ cs.length - 1 := hσ _ (by omega) (Nat.le_refl _)
      split
      · exact Fpa.d0Branch_eq x cs (by simp [hcs])
      · rename_i hd0
        have hd1 : 1 ≤ d := Nat.one_le_iff_ne_zero.mpr hd0
        have hσ' : ∀ m, m ≤ cs.length - 1 → SchemeOK σ N0 m := fun m hm k h2 hk => hσ k h2 (by omega)
        have ha := ih (cs.drop d) (by simp [List.drop_eq_nil_iff]; omega)
          (by rw [List.length_drop]; omega) (hσ' _ (by rw [List.length_drop]; omega))
        have hb := ih (cs.take d) (by simp [List.take_eq_nil_iff]; omega)
          (by rw [List.length_take]; omega) (hσ' _ (by rw [List.length_take]; omega))
        rw [ha, hb, Fpa.fastPow_eq, evalPoly_take_drop cs d (by omega) x]
        ring

end FastPoly

/-! ### public entry points, shipped schemes -/
section Entry
variable {α : Type} [CommRing α]

theorem SchemeOK.mono {σ : Scheme} {N0 n m : ℕ} (h : SchemeOK σ N0 n) (hm : m ≤ n) : SchemeOK σ N0 m :=
  fun k h2 hk => h k h2 (by omega)

theorem schemeOK_horner (N0 n : ℕ) : SchemeOK hornerScheme N0 n := fun k h2 _ => by
  simp only [hornerScheme]; omega
theorem schemeOK_balanced (N0 n : ℕ) : SchemeOK balancedScheme N0 n := fun k _ _ => Nat.div_le_self k 2
theorem schemeOK_canonical (N0 n : ℕ) : SchemeOK canonicalScheme N0 n := fun k _ _ => Nat.le_refl k

theorem estrin_small : ∀ k, k < 20 → 2 ≤ k → estrinScheme k 0 ≤ k := by decide

theorem schemeOK_estrin (N0 n : ℕ) : SchemeOK estrinScheme N0 n := by
  intro k h2 _
  by_cases hk : k < 20
  · exact estrin_small k hk h2
  · have : estrinScheme k N0 ≤ estrinThresholds.length := List.length_filter_le _ _
    have h20 : estrinThresholds.length = 20 := by decide
    omega

theorem estrin_zero_iff' (k N : ℕ) : estrinScheme k N = 0 ↔ k < 3 := by
  constructor
  · intro h
    by_contra hk
    have hmem : 3 ∈ estrinThresholds.filter (· ≤ k) := by
      rw [List.mem_filter]; exact ⟨by decide, by simp; omega⟩
    have : estrinThresholds.filter (· ≤ k) = [] := List.eq_nil_of_length_eq_zero h
    rw [this] at hmem; cases hmem
  · intro h
    have : k = 0 ∨ k = 1 ∨ k = 2 := by omega
    rcases this with rfl | rfl | rfl <;> rfl

theorem fastPolynomial_eq (x : α) (cs : List α) (rev : Bool) (scheme : Option Scheme) (hne : cs ≠ [])
    (h : ∀ s, scheme = some s → SchemeOK s (cs.length - 1) (cs.length - 1)) :
    fastPolynomial x cs rev scheme = evalPoly (if rev then cs.reverse else cs) x := by
  unfold fastPolynomial
  have hl : ∀ l : List α, l.length = cs.length → ∀ s, scheme = some s → SchemeOK s (l.length - 1) (l.length - 1) := by
    intro l hlen s hs; rw [hlen]; exact h s hs
  have hne' : (if rev = true then cs.reverse else cs) ≠ [] := by
    cases rev <;> simpa using hne
  have hlen' : (if rev = true then cs.reverse else cs).length = cs.length := by
    cases rev <;> simp
  generalize (if rev = true then cs.reverse else cs) = l at hne' hlen' ⊢
  cases scheme with
  | none => exact fastPolyRec_eq x _ _ _ _ l hne' (Nat.le_refl _) (schemeOK_horner _ _) (schemeOK_balanced _ _)
  | some s =>
    have hs := hl l hlen' s rfl
    exact fastPolyRec_eq x _ _ _ _ l hne' (Nat.le_refl _) hs hs

theorem Fpa.fastPolynomial_eq (x : α) (cs : List α) (rev : Bool) (scheme : Option Scheme) (hne : cs ≠ [])
    (h : ∀ s, scheme = some s → SchemeOK s (cs.length - 1) (cs.length - 1)) :
    Fpa.fastPolynomial x cs rev scheme = evalPoly (if rev then cs.reverse else cs) x := by
  unfold Fpa.fastPolynomial
  have key : ∀ l : List α, l ≠ [] → l.length = cs.length →
      Fpa.fastPolyRec l.length (scheme.getD balancedScheme) (l.length - 1) x l = evalPoly l x := by
    intro l hl hlen
    apply Fpa.fastPolyRec_eq x _ _ _ l hl (Nat.le_refl _)
    cases scheme with
    | none => exact schemeOK_balanced _ _
    | some s => have hs := h s rfl; rw [← hlen] at hs; exact hs
  cases rev with
  | false => simpa using key cs hne rfl
  | true => simpa using key cs.reverse (by simpa using hne) (by simp)

/-- every scheme shipped with the code is admissible for every size -/
def Shipped (scheme : Option Scheme) : Prop :=
  scheme = none ∨ scheme = some hornerScheme ∨ scheme = some estrinScheme ∨
  scheme = some balancedScheme ∨ scheme = some canonicalScheme

theorem shipped_ok {scheme : Option Scheme} (hs : Shipped scheme) (N0 n : ℕ) :
    ∀ s, scheme = some s → SchemeOK s N0 n := by
  intro s h
  rcases hs with rfl | rfl | rfl | rfl | rfl
  · cases h
  · cases h; exact schemeOK_horner _ _
  · cases h; exact schemeOK_estrin _ _
  · cases h; exact schemeOK_balanced _ _
  · cases h; exact schemeOK_canonical _ _

end Entry

/-! ### horner -/
section Horner
variable {α : Type} [CommRing α]

theorem evalPoly_reverse_cons (c : α) (t : List α) (x : α) :
    evalPoly (c :: t).reverse x = evalPoly t.reverse x + x ^ t.length * c := by
  rw [List.reverse_cons, evalPoly_append]; simp

theorem horner_fwd_aux (x : α) (cs : List α) : ∀ (k : ℕ) (s : α),
    (List.range k).reverse.foldl (fun s i => s * x + cs.getD i 0) s
      = s * x ^ k + ∑ i ∈ Finset.range k, cs.getD i 0 * x ^ i := by
  intro k
  induction k with
  | zero => intro s; simp
  | succ k ih =>
    intro s
    rw [List.range_succ, List.reverse_append, List.reverse_singleton, List.singleton_append,
      List.foldl_cons, ih, Finset.sum_range_succ]
    ring

theorem horner_rev_aux (x : α) (cs : List α) : ∀ (n a : ℕ) (s : α),
    (List.range' a n).foldl (fun s i => s * x + cs.getD i 0) s
      = s * x ^ n + ∑ j ∈ Finset.range n, cs.getD (a + j) 0 * x ^ (n - 1 - j) := by
  intro n
  induction n with
  | zero => intro a s; simp
  | succ n ih =>
    intro a s
    rw [List.range'_succ, List.foldl_cons, ih, Finset.sum_range_succ']
    have : ∑ j ∈ Finset.range n, cs.getD (a + 1 + j) 0 * x ^ (n - 1 - j)
         = ∑ j ∈ Finset.range n, cs.getD (a + (j + 1)) 0 * x ^ (n + 1 - 1 - (j + 1)) := by
      apply Finset.sum_congr rfl
      intro j _
      congr 2
      · omega
      · omega
    rw [this]
    simp only [Nat.add_zero, Nat.add_sub_cancel, Nat.sub_zero]
    ring

theorem evalPoly_reverse_eq_sum (l : List α) (x : α) :
    evalPoly l.reverse x = ∑ i ∈ Finset.range l.length, l.getD i 0 * x ^ (l.length - 1 - i) := by
  induction l with
  | nil => simp
  | cons c t ih =>
    rw [evalPoly_reverse_cons, ih, List.length_cons, Finset.sum_range_succ']
    simp only [List.getD_cons_succ, List.getD_cons_zero, Nat.add_sub_cancel, Nat.sub_zero]
    rw [mul_comm (x ^ t.length) c]
    congr 1
    apply Finset.sum_congr rfl
    intro i _
    congr 2
    omega

theorem Fpa.horner_eq (x : α) (cs : List α) (rev : Bool) (hne : cs ≠ []) :
    Fpa.horner x cs rev = evalPoly (if rev then cs.reverse else cs) x := by
  obtain ⟨c, t, rfl⟩ := List.exists_cons_of_ne_nil hne
  unfold Fpa.horner
  cases rev with
  | true =>
    simp only [if_true, List.length_cons, Nat.add_sub_cancel]
    rw [horner_rev_aux, evalPoly_reverse_eq_sum, List.length_cons, Finset.sum_range_succ']
    simp only [List.getD_cons_zero, Nat.add_sub_cancel, Nat.sub_zero, List.getD_cons_succ]
    rw [add_comm]
    congr 1
    apply Finset.sum_congr rfl
    intro j _
    rw [Nat.add_comm 1 j, List.getD_cons_succ]
    congr 2
    omega
  | false =>
    simp only [Bool.false_eq_true, if_false, List.length_cons, Nat.add_sub_cancel]
    rw [horner_fwd_aux, evalPoly_eq_sum, List.length_cons, Finset.sum_range_succ]
    ring

end Horner

/-! ### ratio form -/
section Ratio
variable {α : Type} [CommRing α]

/-- prefix products: the coefficient list denoted by a ratio list -/
def fromRatioAux : α → List α → List α
  | _, [] => []
  | p, r :: rs => (p * r) :: fromRatioAux (p * r) rs

/-- `coeffs[i] = rcoeffs[0] * … * rcoeffs[i]` -/
def fromRatio (rs : List α) : List α := fromRatioAux 1 rs

theorem fromRatioAux_length (p : α) (rs : List α) : (fromRatioAux p rs).length = rs.length := by
  induction rs generalizing p with
  | nil => rfl
  | cons r rs ih => simp [fromRatioAux, ih]

theorem rpoly_aux (x : α) : ∀ (t : List α) (p r0 : α),
    p * r0 * t.foldr (fun c r => 1 + c * x * r) 1 = evalPoly (fromRatioAux p (r0 :: t)) x := by
  intro t
  induction t with
  | nil => intro p r0; simp [fromRatioAux]
  | cons c t ih =>
    intro p r0
    have := ih (p * r0) c
    simp only [fromRatioAux, evalPoly_cons, List.foldr_cons] at this ⊢
    rw [← this]; ring

theorem rpolynomial_eq (x : α) (rs : List α) (rev : Bool) (hne : rs ≠ []) :
    rpolynomial x rs rev = evalPoly (fromRatio (if rev then rs.reverse else rs)) x := by
  unfold rpolynomial
  have key : ∀ l : List α, l ≠ [] →
      (l.drop 1).reverse.foldl (fun r c => 1 + c * x * r) 1 * l.getD 0 0 = evalPoly (fromRatio l) x := by
    intro l hl
    obtain ⟨r0, t, rfl⟩ := List.exists_cons_of_ne_nil hl
    rw [List.foldl_reverse]
    simp only [List.drop_succ_cons, List.drop_zero, List.getD_cons_zero]
    rw [fromRatio, ← rpoly_aux]; ring
  cases rev with
  | false => simpa using key rs hne
  | true => simpa using key rs.reverse (by simpa using hne)

theorem Fpa.rpolynomial_eq (x : α) (rs : List α) (rev : Bool) (hne : rs ≠ []) :
    Fpa.rpolynomial x rs rev = evalPoly (fromRatio (if rev then rs.reverse else rs)) x := by
  unfold Fpa.rpolynomial
  have key : ∀ l : List α, l ≠ [] →
      (l.drop 1).reverse.foldl (fun r c => 1 + r * c * x) 1 * l.getD 0 0 = evalPoly (fromRatio l) x := by
    intro l hl
    obtain ⟨r0, t, rfl⟩ := List.exists_cons_of_ne_nil hl
    rw [List.foldl_reverse]
    simp only [List.drop_succ_cons, List.drop_zero, List.getD_cons_zero]
    have : (fun (c r : α) => 1 + r * c * x) = (fun c r => 1 + c * x * r) := by
      funext c r; ring
    rw [this, fromRatio, ← rpoly_aux]; ring
  cases rev with
  | false => simpa using key rs hne
  | true => simpa using key rs.reverse (by simpa using hne)

end Ratio

/-! ### ratio form ↔ coefficient form (field) -/
section RatioField
variable {α : Type} [Field α]

/-- `ratios p [c1, c2, …] = [c1 / p, c2 / c1, …]` -/
def ratios : α → List α → List α
  | _, [] => []
  | p, c :: t => c / p :: ratios c t

theorem asr_map_eq (L : List α) : ∀ (t : List α) (p : α) (s : ℕ), L.drop s = p :: t →
    (List.range' (s + 1) t.length).map (fun i => L.getD i 0 / L.getD (i - 1) 0) = ratios p t := by
  intro t
  induction t with
  | nil => intro p s _; simp [ratios]
  | cons c t ih =>
    intro p s h
    have h0 : L.getD s 0 = p := by
      have := congrArg (fun l => l.getD 0 0) h
      simpa [List.getD_eq_getElem?_getD, List.getElem?_drop] using this
    have h1 : L.getD (s + 1) 0 = c := by
      have := congrArg (fun l => l.getD 1 0) h
      simpa [List.getD_eq_getElem?_getD, List.getElem?_drop] using this
    have hd : L.drop (s + 1) = c :: t := by
      rw [← List.drop_drop, h]; rfl
    rw [List.length_cons, List.range'_succ, List.map_cons, ih c (s + 1) hd]
    show _ = c / p :: ratios c t
    rw [Nat.add_sub_cancel, h0, h1]

theorem asrCore_cons (c0 : α) (t : List α) : asrCore (c0 :: t) = c0 :: ratios c0 t := by
  unfold asrCore
  simp only [List.getD_cons_zero, List.length_cons, Nat.add_sub_cancel]
  rw [asr_map_eq (c0 :: t) t c0 0 rfl]

theorem fromRatioAux_ratios : ∀ (t : List α) (p : α), (∀ c ∈ (p :: t).dropLast, c ≠ 0) →
    fromRatioAux p (ratios p t) = t := by
  intro t
  induction t with
  | nil => intro p _; rfl
  | cons c t ih =>
    intro p h
    have hp : p ≠ 0 := h p (by simp [List.dropLast])
    have hc : ∀ c' ∈ (c :: t).dropLast, c' ≠ 0 := by
      intro c' hc'
      apply h c'
      rw [List.dropLast_cons_cons]
      exact List.mem_cons_of_mem _ hc'
    simp only [ratios, fromRatioAux]
    rw [mul_div_cancel₀ c hp, ih c hc]

theorem ratios_fromRatioAux : ∀ (t : List α) (p : α), p ≠ 0 → (∀ r ∈ t.dropLast, r ≠ 0) →
    ratios p (fromRatioAux p t) = t := by
  intro t
  induction t with
  | nil => intro p _ _; rfl
  | cons r t ih =>
    intro p hp h
    simp only [fromRatioAux, ratios]
    rw [mul_div_cancel_left₀ r hp]
    cases t with
    | nil => rfl
    | cons r' t' =>
      have hr : r ≠ 0 := h r (by simp [List.dropLast])
      rw [ih (p * r) (mul_ne_zero hp hr)]
      intro r'' hr''
      apply h r''
      rw [List.dropLast_cons_cons]
      exact List.mem_cons_of_mem _ hr''

theorem fromRatio_asrCore (cs : List α) (hne : cs ≠ []) (h : ∀ c ∈ cs.dropLast, c ≠ 0) :
    fromRatio (asrCore cs) = cs := by
  obtain ⟨c0, t, rfl⟩ := List.exists_cons_of_ne_nil hne
  rw [asrCore_cons, fromRatio, fromRatioAux, one_mul, fromRatioAux_ratios t c0 h]

theorem asrCore_fromRatio (rs : List α) (hne : rs ≠ []) (h : ∀ r ∈ rs.dropLast, r ≠ 0) :
    asrCore (fromRatio rs) = rs := by
  obtain ⟨r0, t, rfl⟩ := List.exists_cons_of_ne_nil hne
  rw [fromRatio, fromRatioAux, one_mul, asrCore_cons]
  cases t with
  | nil => rfl
  | cons r' t' =>
    have hr : r0 ≠ 0 := h r0 (by simp [List.dropLast])
    rw [ratios_fromRatioAux _ r0 hr]
    intro r hr'
    apply h r
    rw [List.dropLast_cons_cons]
    exact List.mem_cons_of_mem _ hr'

theorem ratio_roundtrip' (x : α) (cs : List α) (rev : Bool) (hne : cs ≠ [])
    (h : ∀ c ∈ (if rev then cs.reverse else cs).dropLast, c ≠ 0) :
    rpolynomial x (asrpolynomial cs rev) rev = evalPoly (if rev then cs.reverse else cs) x ∧
    Fpa.rpolynomial x (asrpolynomial cs rev) rev = evalPoly (if rev then cs.reverse else cs) x := by
  have hne' : asrpolynomial cs rev ≠ [] := by
    unfold asrpolynomial asrCore; cases rev <;> simp
  rw [rpolynomial_eq x _ rev hne', Fpa.rpolynomial_eq x _ rev hne']
  cases rev with
  | false =>
    simp only [asrpolynomial, Bool.false_eq_true, if_false] at h ⊢
    rw [fromRatio_asrCore cs hne h]; exact ⟨rfl, rfl⟩
  | true =>
    simp only [asrpolynomial, if_true, List.reverse_reverse] at h ⊢
    rw [fromRatio_asrCore cs.reverse (by simpa using hne) h]; exact ⟨rfl, rfl⟩

end RatioField

/-! ### laurent -/
section Laurent
variable {α : Type} [Field α]

theorem evalPoly_reverse_inv (z : α) (hz : z ≠ 0) : ∀ l : List α, l ≠ [] →
    evalPoly l.reverse z⁻¹ * z ^ (l.length - 1) = evalPoly l z := by
  intro l
  induction l with
  | nil => intro h; exact absurd rfl h
  | cons c t ih =>
    intro _
    rw [evalPoly_reverse_cons, List.length_cons, Nat.add_sub_cancel, evalPoly_cons]
    have hw : z⁻¹ ^ t.length * z ^ t.length = 1 := by
      rw [← mul_pow, inv_mul_cancel₀ hz, one_pow]
    by_cases ht : t = []
    · subst ht; simp
    · have hpos : t.length = (t.length - 1) + 1 := by
        have := List.length_pos_of_ne_nil ht; omega
      have := ih ht
      calc (evalPoly t.reverse z⁻¹ + z⁻¹ ^ t.length * c) * z ^ t.length
          = evalPoly t.reverse z⁻¹ * z ^ t.length + c * (z⁻¹ ^ t.length * z ^ t.length) := by ring
        _ = evalPoly t.reverse z⁻¹ * (z ^ (t.length - 1) * z) + c := by
            rw [hw, mul_one]; congr 2; conv_lhs => rw [hpos, pow_succ]
        _ = c + z * evalPoly t z := by rw [← this]; ring

/-- admissibility of an optional scheme argument for every `_N` and every size up to `n` -/
def SchemeOKAll (scheme : Option Scheme) (n : ℕ) : Prop := ∀ s, scheme = some s → ∀ N0, SchemeOK s N0 n

theorem Fpa.fastPolynomial_eq' (x : α) (cs : List α) (rev : Bool) (scheme : Option Scheme) (n : ℕ)
    (hne : cs ≠ []) (hn : cs.length - 1 ≤ n) (h : SchemeOKAll scheme n) :
    Fpa.fastPolynomial x cs rev scheme = evalPoly (if rev then cs.reverse else cs) x :=
  Fpa.fastPolynomial_eq x cs rev scheme hne (fun s hs => (h s hs _).mono hn)

theorem Fpa.laurent_eq (z : α) (C : List α) (m : ℤ) (rev : Bool) (scheme : Option Scheme)
    (hne : C ≠ []) (hz : m < 0 → z ≠ 0) (h : SchemeOKAll scheme (C.length - 1)) :
    Fpa.laurent z C m rev scheme = evalPoly (if rev then C.reverse else C) z * z ^ m := by
  have hlen : 1 ≤ C.length := List.length_pos_of_ne_nil hne
  unfold Fpa.laurent
  by_cases h0 : m = 0
  · subst h0
    rw [if_pos rfl, Fpa.fastPolynomial_eq' z C rev scheme _ hne (Nat.le_refl _) h]; simp
  rw [if_neg h0]
  by_cases hpos : m > 0
  · rw [if_pos hpos, Fpa.fastPolynomial_eq' z C rev scheme _ hne (Nat.le_refl _) h, Fpa.fastPow_eq]
    congr 1
    rw [← zpow_natCast]; congr 1; omega
  rw [if_neg hpos]
  obtain ⟨p, rfl⟩ : ∃ p : ℕ, m = -(p : ℤ) := ⟨(-m).toNat, by omega⟩
  have hp1 : 1 ≤ p := by omega
  have hz' : z ≠ 0 := hz (by omega)
  have htoNat : (- -(p : ℤ)).toNat = p := by omega
  have hzm : z ^ (-(p : ℤ)) = z⁻¹ ^ p := by rw [zpow_neg, zpow_natCast, inv_pow]
  have hw : ∀ k : ℕ, z ^ k * z⁻¹ ^ k = 1 := by
    intro k; rw [← mul_pow, mul_inv_cancel₀ hz', one_pow]
  rw [hzm, htoNat]
  by_cases hlt : - -(p : ℤ) < (C.length : ℤ)
  · rw [if_pos hlt]
    have hpl : p < C.length := by omega
    cases rev with
    | false =>
      simp only [Bool.false_eq_true, if_false, Bool.not_false]
      rw [Fpa.fastPolynomial_eq' z⁻¹ (C.take p ++ [0]) true scheme (C.length - 1) (by simp)
            (by simp [List.length_take]; omega) h,
          Fpa.fastPolynomial_eq' z (C.drop p) false scheme (C.length - 1)
            (by simp [List.drop_eq_nil_iff]; omega) (by simp [List.length_drop]; omega) h]
      simp only [if_true, Bool.false_eq_true, if_false]
      have hrev := evalPoly_reverse_inv z hz' (C.take p ++ [0]) (by simp)
      have hlenN : (C.take p ++ [0]).length - 1 = p := by
        simp [List.length_take]; omega
      rw [hlenN, evalPoly_append] at hrev
      simp only [evalPoly_cons, evalPoly_nil, mul_zero, add_zero] at hrev
      have hN : evalPoly (C.take p ++ [0]).reverse z⁻¹ = evalPoly (C.take p) z * z⁻¹ ^ p := by
        rw [← hrev, mul_assoc, hw, mul_one]
      rw [hN, evalPoly_take_drop C p (by omega) z]
      have := hw p
      calc evalPoly (C.take p) z * z⁻¹ ^ p + evalPoly (C.drop p) z
          = evalPoly (C.take p) z * z⁻¹ ^ p + evalPoly (C.drop p) z * (z ^ p * z⁻¹ ^ p) := by rw [this, mul_one]
        _ = _ := by ring
    | true =>
      simp only [if_true, Bool.not_true]
      have hdl : (C.drop (C.length - p)).length = p := by rw [List.length_drop]; omega
      rw [Fpa.fastPolynomial_eq' z⁻¹ (0 :: C.drop (C.length - p)) false scheme (C.length - 1) (by simp)
            (by rw [List.length_cons, hdl]; omega) h,
          Fpa.fastPolynomial_eq' z (C.take (C.length - p)) true scheme (C.length - 1)
            (List.ne_nil_of_length_pos (by rw [List.length_take]; omega)) (by rw [List.length_take]; omega) h]
      simp only [if_true, Bool.false_eq_true, if_false, evalPoly_cons, zero_add]
      set D := C.drop (C.length - p) with hD
      set T := C.take (C.length - p) with hT
      have hDne : D ≠ [] := by
        intro h0; rw [h0] at hdl; simp at hdl; omega
      have hrev := evalPoly_reverse_inv z hz' D.reverse (by simpa using hDne)
      rw [List.reverse_reverse, List.length_reverse, hdl] at hrev
      have hC : C.reverse = D.reverse ++ T.reverse := by
        rw [← List.reverse_append, hT, hD, List.take_append_drop]
      rw [hC, evalPoly_append, List.length_reverse, hdl, ← hrev]
      have h1 := hw p
      have h2 : z⁻¹ ^ p = z⁻¹ ^ (p - 1) * z⁻¹ := by
        conv_lhs => rw [show p = (p - 1) + 1 by omega, pow_succ]
      have h3 := hw (p - 1)
      calc z⁻¹ * evalPoly D z⁻¹ + evalPoly T.reverse z
          = z⁻¹ * evalPoly D z⁻¹ * (z ^ (p - 1) * z⁻¹ ^ (p - 1)) + evalPoly T.reverse z * (z ^ p * z⁻¹ ^ p) := by
            rw [h1, h3, mul_one, mul_one]
        _ = _ := by rw [h2]; ring
  · rw [if_neg hlt]
    have hpl : C.length ≤ p := by omega
    dsimp only
    rw [Fpa.fastPolynomial_eq' z⁻¹ C (!rev) scheme _ hne (Nat.le_refl _) h, Fpa.fastPow_eq]
    cases rev with
    | false =>
      simp only [Bool.not_false, if_true, Bool.false_eq_true, if_false]
      have hrev := evalPoly_reverse_inv z hz' C hne
      rw [← hrev]
      have h1 := hw (C.length - 1)
      have h2 : z⁻¹ ^ p = z⁻¹ ^ (C.length - 1) * z⁻¹ ^ (p - C.length + 1) := by
        rw [← pow_add]; congr 1; omega
      rw [h2]
      calc evalPoly C.reverse z⁻¹ * z⁻¹ ^ (p - C.length + 1)
          = evalPoly C.reverse z⁻¹ * z⁻¹ ^ (p - C.length + 1) * (z ^ (C.length - 1) * z⁻¹ ^ (C.length - 1)) := by
            rw [h1, mul_one]
        _ = _ := by ring
    | true =>
      simp only [Bool.not_true, Bool.false_eq_true, if_false, if_true]
      have hrev := evalPoly_reverse_inv z hz' C.reverse (by simpa using hne)
      rw [List.reverse_reverse, List.length_reverse] at hrev
      rw [← hrev]
      have h1 := hw (C.length - 1)
      have h2 : z⁻¹ ^ p = z⁻¹ ^ (C.length - 1) * z⁻¹ ^ (p - C.length + 1) := by
        rw [← pow_add]; congr 1; omega
      rw [h2]
      calc evalPoly C z⁻¹ * z⁻¹ ^ (p - C.length + 1)
          = evalPoly C z⁻¹ * z⁻¹ ^ (p - C.length + 1) * (z ^ (C.length - 1) * z⁻¹ ^ (C.length - 1)) := by
            rw [h1, mul_one]
        _ = _ := by ring

end Laurent

/-! ### add, multiply -/
section AddMul
variable {α : Type} [CommRing α]

@[simp] theorem addCore_nil_left (Q : List α) : addCore [] Q = Q := by
  cases Q <;> simp [addCore]
@[simp] theorem addCore_nil_right (P : List α) : addCore P [] = P := by
  cases P <;> simp [addCore]
@[simp] theorem addCore_cons_cons (p q : α) (P Q : List α) :
    addCore (p :: P) (q :: Q) = (p + q) :: addCore P Q := by
  simp [addCore]

theorem toPoly_addCore (P Q : List α) : toPoly (addCore P Q) = toPoly P + toPoly Q := by
  induction P generalizing Q with
  | nil => simp
  | cons p P ih =>
    cases Q with
    | nil => simp
    | cons q Q => simp [ih]; ring

theorem length_addCore (P Q : List α) : (addCore P Q).length = max P.length Q.length := by
  induction P generalizing Q with
  | nil => simp
  | cons p P ih =>
    cases Q with
    | nil => simp
    | cons q Q => simp [ih]

theorem getD_addCore (P Q : List α) (i : ℕ) : (addCore P Q).getD i 0 = P.getD i 0 + Q.getD i 0 := by
  rw [← coeff_toPoly, toPoly_addCore, coeff_add, coeff_toPoly, coeff_toPoly]

theorem toPoly_modify_add (v : α) : ∀ (l : List α) (k : ℕ), k < l.length →
    toPoly (l.modify k (· + v)) = toPoly l + C v * X ^ k := by
  intro l
  induction l with
  | nil => intro k h; simp at h
  | cons c l ih =>
    intro k h
    cases k with
    | zero => simp [List.modify_zero_cons]; ring
    | succ k =>
      rw [List.modify_succ_cons, toPoly_cons, ih k (by simpa using h), toPoly_cons, pow_succ]
      ring

theorem mul_inner (p : α) (i : ℕ) : ∀ (Q : List α) (s : ℕ) (lst : List α), i + s + Q.length ≤ lst.length →
    ((Q.zipIdx s).foldl (fun lst qj => lst.modify (i + qj.2) (· + p * qj.1)) lst).length = lst.length ∧
    toPoly ((Q.zipIdx s).foldl (fun lst qj => lst.modify (i + qj.2) (· + p * qj.1)) lst)
      = toPoly lst + C p * X ^ (i + s) * toPoly Q := by
  intro Q
  induction Q with
  | nil => intro s lst _; simp
  | cons q Q ih =>
    intro s lst h
    rw [List.zipIdx_cons, List.foldl_cons]
    simp only [List.length_cons] at h
    have hlen : (lst.modify (i + s) (· + p * q)).length = lst.length := List.length_modify _ _ _
    obtain ⟨h1, h2⟩ := ih (s + 1) (lst.modify (i + s) (· + p * q)) (by rw [hlen]; omega)
    refine ⟨by rw [h1, hlen], ?_⟩
    rw [h2, toPoly_modify_add _ _ _ (by omega), toPoly_cons, C_mul, ← add_assoc i s 1, pow_succ]
    ring

theorem mul_outer (Q : List α) : ∀ (P : List α) (s : ℕ) (lst : List α), s + P.length + Q.length ≤ lst.length + 1 →
    toPoly ((P.zipIdx s).foldl
      (fun lst pi => Q.zipIdx.foldl (fun lst qj => lst.modify (pi.2 + qj.2) (· + pi.1 * qj.1)) lst) lst)
      = toPoly lst + X ^ s * toPoly P * toPoly Q ∧
    ((P.zipIdx s).foldl
      (fun lst pi => Q.zipIdx.foldl (fun lst qj => lst.modify (pi.2 + qj.2) (· + pi.1 * qj.1)) lst) lst).length
      = lst.length := by
  intro P
  induction P with
  | nil => intro s lst _; simp
  | cons p P ih =>
    intro s lst h
    rw [List.zipIdx_cons, List.foldl_cons]
    simp only [List.length_cons] at h
    by_cases hQ : Q = []
    · subst hQ
      simp
    · have hQl : 1 ≤ Q.length := List.length_pos_of_ne_nil hQ
      obtain ⟨h1, h2⟩ := mul_inner p s Q 0 lst (by omega)
      obtain ⟨h3, h4⟩ := ih (s + 1) _ (by rw [h1]; omega)
      refine ⟨?_, by rw [h4, h1]⟩
      rw [h3, h2, toPoly_cons, pow_succ]
      simp only [Nat.add_zero]
      ring

theorem toPoly_mulCore (P Q : List α) : toPoly (mulCore P Q) = toPoly P * toPoly Q := by
  unfold mulCore
  by_cases hP : P = []
  · subst hP; simp [toPoly_replicate_zero]
  · have hPl : 1 ≤ P.length := List.length_pos_of_ne_nil hP
    have := (mul_outer Q P 0 (List.replicate (P.length + Q.length - 1) 0) (by simp; omega)).1
    rw [this, toPoly_replicate_zero]; simp

theorem length_mulCore (P Q : List α) (hP : P ≠ []) : (mulCore P Q).length = P.length + Q.length - 1 := by
  unfold mulCore
  have hPl : 1 ≤ P.length := List.length_pos_of_ne_nil hP
  have := (mul_outer Q P 0 (List.replicate (P.length + Q.length - 1) 0) (by simp; omega)).2
  rw [this]; simp

end AddMul

/-! ### derivative -/
section Deriv
variable {α : Type} [CommRing α]

theorem getD_map_range' (f : ℕ → α) (s m n : ℕ) :
    ((List.range' s m).map f).getD n 0 = if n < m then f (s + n) else 0 := by
  rw [List.getD_eq_getElem?_getD, List.getElem?_map]
  split
  · rename_i h; rw [List.getElem?_range' h]; simp
  · rename_i h
    have : (List.range' s m)[n]? = none := by
      rw [List.getElem?_eq_none_iff]; simp; omega
    rw [this]; rfl

theorem toPoly_deriv1 (P : List α) : toPoly (deriv1 P) = Polynomial.derivative (toPoly P) := by
  ext n
  rw [coeff_toPoly, coeff_derivative, coeff_toPoly]
  unfold deriv1
  rw [getD_map_range']
  split
  · rw [Nat.add_comm 1 n]; push_cast; rfl
  · rename_i h
    have : P.getD (n + 1) 0 = 0 := by
      rw [List.getD_eq_getElem?_getD, List.getElem?_eq_none_iff.mpr (by omega)]; rfl
    rw [this, zero_mul]

theorem derivCore_succ (P : List α) (n : ℕ) : derivCore P (n + 1) = derivCore (deriv1 P) n := by
  cases n <;> rfl

theorem toPoly_derivCore (n : ℕ) : ∀ P : List α, toPoly (derivCore P n) = (⇑(Polynomial.derivative (R := α)))^[n] (toPoly P) := by
  induction n with
  | zero => intro P; rfl
  | succ n ih =>
    intro P
    rw [derivCore_succ, ih, toPoly_deriv1, Function.iterate_succ_apply]

end Deriv

/-! ### taylorat -/
theorem choose_eq (n k : ℕ) : choose n k = Nat.choose n k := by
  unfold choose
  induction k with
  | zero => simp
  | succ k ih =>
    rw [List.range_succ, List.foldl_append, List.foldl_cons, List.foldl_nil, ih]
    rw [← Nat.choose_succ_right_eq, Nat.mul_div_cancel _ (Nat.succ_pos k)]

section Taylor
variable {α : Type} [CommRing α]

theorem taylor_fold (P : List α) (z0 : α) (m : ℕ) : ∀ (n a : ℕ) (s e : α),
    (List.range' a n).foldl
      (fun (st : α × α) j => (st.1 + P.getD j 0 * (choose j m : α) * st.2, st.2 * z0)) (s, e)
    = (s + ∑ i ∈ Finset.range n, P.getD (a + i) 0 * (choose (a + i) m : α) * (e * z0 ^ i), e * z0 ^ n) := by
  intro n
  induction n with
  | zero => intro a s e; simp
  | succ n ih =>
    intro a s e
    rw [List.range'_succ, List.foldl_cons, ih, Finset.sum_range_succ']
    simp only [Nat.add_zero, pow_zero, mul_one]
    congr 1
    · rw [add_assoc]; congr 1; rw [add_comm]; congr 1
      apply Finset.sum_congr rfl
      intro i _
      rw [show a + 1 + i = a + (i + 1) by omega, pow_succ]; ring
    · rw [pow_succ]; ring

theorem taylorCoeff_eq (P : List α) (z0 : α) (m : ℕ) :
    taylorCoeff P z0 m = ∑ i ∈ Finset.range (P.length - m), P.getD (m + i) 0 * (Nat.choose (m + i) m : α) * z0 ^ i := by
  unfold taylorCoeff
  rw [taylor_fold]
  simp only [zero_add, one_mul, choose_eq]

theorem natDegree_toPoly_lt (P : List α) (hP : P ≠ []) : (toPoly P).natDegree < P.length := by
  have hpos := List.length_pos_of_ne_nil hP
  by_cases h0 : toPoly P = 0
  · rw [h0]; simpa using hpos
  · rw [Polynomial.natDegree_lt_iff_degree_lt h0, degree_lt_iff_coeff_zero]
    intro k hk
    rw [coeff_toPoly, List.getD_eq_getElem?_getD, List.getElem?_eq_none_iff.mpr hk]; rfl

theorem taylorCoeff_eq_coeff (P : List α) (z0 : α) (m : ℕ) :
    taylorCoeff P z0 m = ((taylor z0) (toPoly P)).coeff m := by
  rw [taylorCoeff_eq, taylor_coeff]
  by_cases hP : P = []
  · subst hP; simp
  have hdeg : ((hasseDeriv m) (toPoly P)).natDegree < P.length :=
    lt_of_le_of_lt (le_trans (natDegree_hasseDeriv_le _ _) (Nat.sub_le _ _)) (natDegree_toPoly_lt P hP)
  rw [eval_eq_sum_range' hdeg]
  symm
  rw [← Finset.sum_subset (Finset.range_subset_range.mpr (Nat.sub_le P.length m))]
  · apply Finset.sum_congr rfl
    intro i _
    rw [hasseDeriv_coeff, coeff_toPoly, Nat.add_comm i m]; ring
  · intro i _ hi
    have hi' : P.length ≤ i + m := by
      simp only [Finset.mem_range, not_lt] at hi; omega
    rw [hasseDeriv_coeff, coeff_toPoly, List.getD_eq_getElem?_getD,
      List.getElem?_eq_none_iff.mpr hi']
    simp

theorem getD_taylorCore (P : List α) (z0 : α) (size : Option ℕ) (m : ℕ) :
    (taylorCore P z0 size).getD m 0 = if m < size.getD P.length then ((taylor z0) (toPoly P)).coeff m else 0 := by
  unfold taylorCore
  rw [List.range_eq_range', getD_map_range']
  simp only [Nat.zero_add, taylorCoeff_eq_coeff]

theorem toPoly_taylorCore_none (P : List α) (z0 : α) :
    toPoly (taylorCore P z0 none) = (taylor z0) (toPoly P) := by
  ext m
  rw [coeff_toPoly, getD_taylorCore]
  split
  · rfl
  · rename_i h
    simp only [Option.getD_none, not_lt] at h
    rw [← taylorCoeff_eq_coeff, taylorCoeff_eq, Nat.sub_eq_zero_of_le h]; simp

end Taylor

/-! ### divmod -/
set_option linter.unusedSectionVars false
section Strip
variable {α : Type} [CommRing α] [DecidableEq α]

theorem stripZeros_append_zeros (l : List α) : ∃ j, l = stripZeros l ++ List.replicate j 0 := by
  unfold stripZeros
  refine ⟨(l.reverse.takeWhile (fun c => decide (c = 0))).length, ?_⟩
  have h := List.takeWhile_append_dropWhile (p := fun c => decide (c = (0 : α))) (l := l.reverse)
  have h2 : l = (l.reverse.dropWhile (fun c => decide (c = 0))).reverse
      ++ (l.reverse.takeWhile (fun c => decide (c = 0))).reverse := by
    rw [← List.reverse_append, h, List.reverse_reverse]
  have h3 : (l.reverse.takeWhile (fun c => decide (c = 0))).reverse
      = List.replicate (l.reverse.takeWhile (fun c => decide (c = 0))).length 0 := by
    rw [List.eq_replicate_iff]
    refine ⟨by simp, ?_⟩
    intro b hb
    have hall := List.all_takeWhile (p := fun c => decide (c = (0 : α))) (l := l.reverse)
    rw [List.all_eq_true] at hall
    simpa using hall b (by simpa using hb)
  rw [← h3]; exact h2

theorem toPoly_stripZeros (l : List α) : toPoly (stripZeros l) = toPoly l := by
  obtain ⟨j, hj⟩ := stripZeros_append_zeros l
  conv_rhs => rw [hj]
  rw [toPoly_append, toPoly_replicate_zero, mul_zero, add_zero]

theorem length_stripZeros_le (l : List α) : (stripZeros l).length ≤ l.length := by
  obtain ⟨j, hj⟩ := stripZeros_append_zeros l
  conv_rhs => rw [hj]
  rw [List.length_append]; omega

/-- last coefficient non-zero (or empty list) -/
def Stripped (l : List α) : Prop := ∀ h : l ≠ [], l.getLast h ≠ 0

theorem stripped_stripZeros (l : List α) : Stripped (stripZeros l) := by
  intro h
  unfold stripZeros at h ⊢
  rw [List.getLast_reverse]
  have hne : l.reverse.dropWhile (fun c => decide (c = 0)) ≠ [] := by simpa using h
  have := List.head_dropWhile_not (fun c => decide (c = (0 : α))) hne
  simpa using this

theorem getLast_eq_getD (l : List α) (h : l ≠ []) : l.getLast h = l.getD (l.length - 1) 0 := by
  rw [List.getLast_eq_getElem, List.getD_eq_getElem?_getD,
    List.getElem?_eq_getElem (by have := List.length_pos_of_ne_nil h; omega)]
  rfl

theorem toPoly_eq_zero_of_stripZeros_nil (l : List α) (h : stripZeros l = []) : toPoly l = 0 := by
  rw [← toPoly_stripZeros, h]; rfl

theorem toPoly_ne_zero_of_stripped (l : List α) (h : l ≠ []) (hs : Stripped l) : toPoly l ≠ 0 := by
  intro h0
  have := hs h
  rw [getLast_eq_getD, ← coeff_toPoly, h0] at this
  simp at this

theorem stripZeros_eq_nil_iff (l : List α) : stripZeros l = [] ↔ toPoly l = 0 := by
  constructor
  · exact toPoly_eq_zero_of_stripZeros_nil l
  · intro h
    by_contra hne
    exact toPoly_ne_zero_of_stripped _ hne (stripped_stripZeros l) (by rw [toPoly_stripZeros]; exact h)

theorem degree_toPoly_lt (l : List α) : (toPoly l).degree < (l.length : WithBot ℕ) := by
  rw [degree_lt_iff_coeff_zero]
  intro m hm
  rw [coeff_toPoly, List.getD_eq_getElem?_getD, List.getElem?_eq_none_iff.mpr hm]; rfl

theorem le_degree_toPoly (l : List α) (h : l ≠ []) (hs : Stripped l) :
    ((l.length - 1 : ℕ) : WithBot ℕ) ≤ (toPoly l).degree := by
  apply le_degree_of_ne_zero
  rw [coeff_toPoly, ← getLast_eq_getD l h]
  exact hs h

theorem toPoly_dropLast (l : List α) (h : l ≠ []) (h0 : l.getLast h = 0) : toPoly l.dropLast = toPoly l := by
  conv_rhs => rw [← List.dropLast_append_getLast h, toPoly_append, h0]
  simp

theorem toPoly_set (t : α) : ∀ (Q : List α) (k : ℕ), k < Q.length →
    toPoly (Q.set k t) = toPoly Q + C (t - Q.getD k 0) * X ^ k := by
  intro Q
  induction Q with
  | nil => intro k h; simp at h
  | cons q Q ih =>
    intro k h
    cases k with
    | zero => simp [List.set_cons_zero]; ring
    | succ k =>
      rw [List.set_cons_succ, toPoly_cons, ih k (by simpa using h), toPoly_cons, List.getD_cons_succ, pow_succ]
      ring

theorem getD_set_ne (Q : List α) (k i : ℕ) (t : α) (h : i ≠ k) : (Q.set k t).getD i 0 = Q.getD i 0 := by
  rw [List.getD_eq_getElem?_getD, List.getD_eq_getElem?_getD, List.getElem?_set_ne (Ne.symm h)]

end Strip

section Divmod
variable {α : Type} [Field α] [DecidableEq α]

/-- one iteration of the `divmod` loop: the new remainder -/
theorem div_step (D R : List α) (hD : D ≠ []) (hR : R ≠ []) (ld : α) (hld : D.getLast hD = ld) (hld0 : ld ≠ 0)
    (hlen : D.length ≤ R.length) :
    let k := R.length - D.length
    let t := R.getLastD 0 / ld
    let R' := stripZeros (addCore R (mulCore [-t] (List.replicate k 0 ++ D))).dropLast
    toPoly R' = toPoly R - C t * X ^ k * toPoly D ∧ R'.length < R.length ∧ Stripped R' := by
  intro k t R'
  have hDl := List.length_pos_of_ne_nil hD
  set S := addCore R (mulCore [-t] (List.replicate k 0 ++ D)) with hS
  have hXlen : (List.replicate k (0 : α) ++ D).length = R.length := by
    simp only [List.length_append, List.length_replicate]; omega
  have hMlen : (mulCore [-t] (List.replicate k 0 ++ D)).length = R.length := by
    rw [length_mulCore _ _ (by simp), hXlen]; simp
  have hSlen : S.length = R.length := by rw [hS, length_addCore, hMlen]; simp
  have hSne : S ≠ [] := by
    intro h0; rw [h0] at hSlen; simp at hSlen
    exact hR (List.eq_nil_of_length_eq_zero hSlen.symm)
  have hSpoly : toPoly S = toPoly R - C t * X ^ k * toPoly D := by
    rw [hS, toPoly_addCore, toPoly_mulCore, toPoly_append, toPoly_replicate_zero, List.length_replicate]
    simp only [toPoly_cons, toPoly_nil, mul_zero, add_zero, zero_add, C_neg]
    ring
  have hRlast : R.getLastD 0 = R.getLast hR := by
    cases R with
    | nil => exact absurd rfl hR
    | cons a l => rfl
  have hSlast : S.getLast hSne = 0 := by
    rw [getLast_eq_getD, ← coeff_toPoly, hSpoly, hSlen, coeff_sub, mul_assoc, coeff_C_mul, coeff_X_pow_mul',
      if_pos (by omega), coeff_toPoly, coeff_toPoly, ← getLast_eq_getD R hR]
    have hidx : R.length - 1 - k = D.length - 1 := by omega
    rw [hidx, ← getLast_eq_getD D hD, hld]
    show R.getLast hR - R.getLastD 0 / ld * ld = 0
    rw [hRlast, div_mul_cancel₀ _ hld0, sub_self]
  refine ⟨?_, ?_, stripped_stripZeros _⟩
  · show toPoly (stripZeros S.dropLast) = _
    rw [toPoly_stripZeros, toPoly_dropLast S hSne hSlast, hSpoly]
  · show (stripZeros S.dropLast).length < R.length
    have := length_stripZeros_le S.dropLast
    rw [List.length_dropLast, hSlen] at this
    have := List.length_pos_of_ne_nil hR
    omega

theorem divLoop_spec (D : List α) (hD : D ≠ []) (ld : α) (hld : D.getLast hD = ld) (hld0 : ld ≠ 0) :
    ∀ (fuel : ℕ) (Q R : List α), R.length < fuel → R.length < Q.length + D.length →
      (∀ i, i + D.length ≤ R.length → Q.getD i 0 = 0) →
      toPoly (divLoop ld D fuel Q R).1 * toPoly D + toPoly (divLoop ld D fuel Q R).2
        = toPoly Q * toPoly D + toPoly R ∧
      (divLoop ld D fuel Q R).2.length < D.length := by
  intro fuel
  induction fuel with
  | zero => intro Q R h; omega
  | succ fuel ih =>
    intro Q R hf hQ hz
    rw [divLoop]
    split
    · rename_i hge
      have hDl := List.length_pos_of_ne_nil hD
      have hR : R ≠ [] := by
        intro h0; rw [h0, List.length_nil] at hge; omega
      obtain ⟨h1, h2, _⟩ := div_step D R hD hR ld hld hld0 hge
      set k := R.length - D.length with hk
      set t := R.getLastD 0 / ld with ht
      set R' := stripZeros (addCore R (mulCore [-t] (List.replicate k 0 ++ D))).dropLast with hR'
      have hkQ : k < Q.length := by omega
      have ih' := ih (Q.set k t) R' (by omega) (by rw [List.length_set]; omega) (by
        intro i hi
        rw [getD_set_ne _ _ _ _ (by omega)]
        exact hz i (by omega))
      refine ⟨?_, ih'.2⟩
      rw [ih'.1, toPoly_set t Q k hkQ, hz k (by omega), h1, sub_zero]
      ring
    · rename_i hlt
      exact ⟨rfl, by show R.length < D.length; omega⟩

theorem divmodCore_spec (P D : List α) (hD : toPoly D ≠ 0) :
    ∃ Q R, divmodCore P D = some (Q, R) ∧ toPoly P = toPoly Q * toPoly D + toPoly R ∧
      (toPoly R).degree < (toPoly D).degree := by
  unfold divmodCore
  set P' := stripZeros P with hP'
  set D' := stripZeros D with hD'
  have hD'ne : D' ≠ [] := by
    intro h0; exact hD ((stripZeros_eq_nil_iff D).mp h0)
  have hD's : Stripped D' := stripped_stripZeros D
  have hPp : toPoly P' = toPoly P := toPoly_stripZeros P
  have hDp : toPoly D' = toPoly D := toPoly_stripZeros D
  have hdegD := le_degree_toPoly D' hD'ne hD's
  have hD'l := List.length_pos_of_ne_nil hD'ne
  simp only []
  split
  · rename_i hlt
    refine ⟨[], P', rfl, by simp [hPp], ?_⟩
    rw [← hDp]
    refine lt_of_lt_of_le (degree_toPoly_lt P') (le_trans ?_ hdegD)
    exact_mod_cast (by omega : P'.length ≤ D'.length - 1)
  · rename_i hge
    have hlast : D'.getLast? = some (D'.getLast hD'ne) := List.getLast?_eq_some_getLast hD'ne
    rw [hlast]
    simp only []
    have spec := divLoop_spec D' hD'ne (D'.getLast hD'ne) rfl (hD's hD'ne) (P'.length + 1)
      (List.replicate (P'.length - D'.length + 1) 0) P' (by omega)
      (by rw [List.length_replicate]; omega)
      (by intro i _; rw [List.getD_eq_getElem?_getD]; by_cases hi : i < P'.length - D'.length + 1
          · rw [List.getElem?_replicate_of_lt hi]; rfl
          · rw [List.getElem?_eq_none_iff.mpr (by rw [List.length_replicate]; omega)]; rfl)
    refine ⟨_, _, rfl, ?_, ?_⟩
    · rw [toPoly_stripZeros, ← hPp, ← hDp, spec.1, toPoly_replicate_zero]; ring
    · rw [← hDp]
      refine lt_of_lt_of_le (degree_toPoly_lt _) (le_trans ?_ hdegD)
      exact_mod_cast (by have := spec.2; omega :
        (divLoop (D'.getLast hD'ne) D' (P'.length + 1) (List.replicate (P'.length - D'.length + 1) 0) P').2.length
          ≤ D'.length - 1)

theorem divmodCore_none_iff (P D : List α) : divmodCore P D = none ↔ toPoly D = 0 := by
  constructor
  · intro h
    by_contra hne
    obtain ⟨Q, R, hqr, _⟩ := divmodCore_spec P D hne
    rw [h] at hqr; cases hqr
  · intro h
    have hs : stripZeros D = [] := (stripZeros_eq_nil_iff D).mpr h
    unfold divmodCore
    simp [hs]

/-- the result is Mathlib's Euclidean quotient and remainder -/
theorem divmod_unique (p d q r : α[X]) (hd : d ≠ 0) (h : p = q * d + r) (hdeg : r.degree < d.degree) :
    q = p / d ∧ r = p % d := by
  have hr : p % d = r := by
    rw [h, add_mod, EuclideanDomain.mod_eq_zero.mpr (Dvd.intro_left q rfl), zero_add, (mod_eq_self_iff hd).mpr hdeg]
  refine ⟨?_, hr.symm⟩
  have h2 := EuclideanDomain.div_add_mod p d
  rw [hr] at h2
  have h3 : d * (p / d) = d * q := by
    have : d * (p / d) + r = d * q + r := by rw [h2, h]; ring
    exact add_right_cancel this
  exact (mul_left_cancel₀ hd h3).symm

end Divmod

/-! ### statements with the `reverse` flag; Σ forms -/
section Final
variable {α : Type} [CommRing α]

/-- the coefficient list lowest degree first: with `reverse=True` lists are highest degree first -/
def orient (rev : Bool) (l : List α) : List α := if rev then l.reverse else l

@[simp] theorem orient_false (l : List α) : orient false l = l := rfl
@[simp] theorem orient_true (l : List α) : orient true l = l.reverse := rfl
theorem orient_ne_nil {rev : Bool} {l : List α} (h : l ≠ []) : orient rev l ≠ [] := by
  cases rev <;> simpa using h

theorem fromRatioAux_getD (rs : List α) : ∀ (p : α) (i : ℕ), i < rs.length →
    (fromRatioAux p rs).getD i 0 = p * ∏ j ∈ Finset.range (i + 1), rs.getD j 0 := by
  induction rs with
  | nil => intro p i h; simp at h
  | cons r rs ih =>
    intro p i h
    cases i with
    | zero => simp [fromRatioAux]
    | succ i =>
      simp only [fromRatioAux, List.getD_cons_succ]
      rw [ih (p * r) i (by simpa using h), Finset.prod_range_succ' _ (i + 1)]
      simp only [List.getD_cons_succ, List.getD_cons_zero]
      ring

theorem fromRatio_getD (rs : List α) (i : ℕ) (h : i < rs.length) :
    (fromRatio rs).getD i 0 = ∏ j ∈ Finset.range (i + 1), rs.getD j 0 := by
  rw [fromRatio, fromRatioAux_getD rs 1 i h, one_mul]

theorem fromRatio_length (rs : List α) : (fromRatio rs).length = rs.length := fromRatioAux_length 1 rs

theorem multiply_spec (P Q : List α) (rev : Bool) :
    toPoly (orient rev (multiply P Q rev)) = toPoly (orient rev P) * toPoly (orient rev Q) := by
  cases rev <;> simp [multiply, toPoly_mulCore]

theorem add_spec (P Q : List α) (rev : Bool) :
    toPoly (orient rev (add P Q rev)) = toPoly (orient rev P) + toPoly (orient rev Q) := by
  cases rev <;> simp [add, toPoly_addCore]

theorem derivative_spec (P : List α) (n : ℕ) (rev : Bool) :
    toPoly (orient rev (derivative P n rev)) = (⇑(Polynomial.derivative (R := α)))^[n] (toPoly (orient rev P)) := by
  cases rev <;> simp [derivative, toPoly_derivCore]

theorem taylorat_spec (P : List α) (z0 : α) (rev : Bool) (size : Option ℕ) (hs : rev = false → size = none) :
    toPoly (orient rev (taylorat P z0 rev size)) = (taylor z0) (toPoly (orient rev P)) := by
  cases rev with
  | false => rw [hs rfl]; simp [taylorat, toPoly_taylorCore_none]
  | true => simp [taylorat, toPoly_taylorCore_none]

theorem taylorat_size (P : List α) (z0 : α) (k : ℕ) :
    (taylorat P z0 false (some k)).length = k ∧
    ∀ m, m < k → (taylorat P z0 false (some k)).getD m 0 = ((taylor z0) (toPoly P)).coeff m := by
  refine ⟨by simp [taylorat, taylorCore], ?_⟩
  intro m hm
  simp only [taylorat, Bool.false_eq_true, if_false]
  rw [getD_taylorCore]; simp [hm]

theorem taylorat_eval (P : List α) (z0 z : α) :
    evalPoly (taylorat P z0) (z - z0) = evalPoly P z := by
  rw [← eval_toPoly, ← eval_toPoly]
  have := taylorat_spec P z0 false none (fun _ => rfl)
  simp only [orient_false] at this
  rw [this, taylor_eval, sub_add_cancel]

end Final

section FinalField
variable {α : Type} [Field α]

theorem Fpa.laurent_sum (z : α) (C : List α) (m : ℤ) (rev : Bool) (scheme : Option Scheme)
    (hne : C ≠ []) (hz : m < 0 → z ≠ 0) (h : SchemeOKAll scheme (C.length - 1)) :
    Fpa.laurent z C m rev scheme
      = ∑ j ∈ Finset.range C.length, (orient rev C).getD j 0 * z ^ ((j : ℤ) + m) := by
  rw [Fpa.laurent_eq z C m rev scheme hne hz h, evalPoly_eq_sum, Finset.sum_mul]
  have hl : (if rev = true then C.reverse else C).length = C.length := by cases rev <;> simp
  rw [hl]
  apply Finset.sum_congr rfl
  intro j _
  have : (if rev = true then C.reverse else C) = orient rev C := rfl
  rw [this, mul_assoc]
  congr 1
  by_cases hz0 : z = 0
  · have hm : 0 ≤ m := by
      by_contra hneg; exact hz (by omega) hz0
    obtain ⟨k, rfl⟩ := Int.eq_ofNat_of_zero_le hm
    rw [← Nat.cast_add, zpow_natCast, zpow_natCast, pow_add]
  · rw [zpow_add₀ hz0, zpow_natCast]

variable [DecidableEq α]

theorem divmod_spec (P D : List α) (rev : Bool) (hD : toPoly (orient rev D) ≠ 0) :
    ∃ Q R, divmod P D rev = some (Q, R) ∧
      toPoly (orient rev P) = toPoly (orient rev Q) * toPoly (orient rev D) + toPoly (orient rev R) ∧
      (toPoly (orient rev R)).degree < (toPoly (orient rev D)).degree ∧
      toPoly (orient rev Q) = toPoly (orient rev P) / toPoly (orient rev D) ∧
      toPoly (orient rev R) = toPoly (orient rev P) % toPoly (orient rev D) := by
  cases rev with
  | false =>
    simp only [orient_false] at hD ⊢
    obtain ⟨Q, R, h1, h2, h3⟩ := divmodCore_spec P D hD
    exact ⟨Q, R, by simp [divmod, h1], h2, h3, divmod_unique _ _ _ _ hD h2 h3⟩
  | true =>
    simp only [orient_true] at hD ⊢
    obtain ⟨Q, R, h1, h2, h3⟩ := divmodCore_spec P.reverse D.reverse hD
    refine ⟨Q.reverse, R.reverse, by simp [divmod, h1], ?_⟩
    simp only [List.reverse_reverse]
    exact ⟨h2, h3, divmod_unique _ _ _ _ hD h2 h3⟩

theorem divmod_none_iff' (P D : List α) (rev : Bool) : divmod P D rev = none ↔ toPoly (orient rev D) = 0 := by
  cases rev with
  | false => simp [divmod, divmodCore_none_iff]
  | true => simp [divmod, divmodCore_none_iff]

end FinalField

end FAVerif.Poly
