/-
The square root of the softfloat is correctly rounded.  The true value √v is irrational in general, so the statement
avoids real numbers: with A = r·2^E ≤ √v < B = (r+1)·2^E (r = ⌊√M⌋ of the scaled radicand) the result is
the round-to-nearest-even of EVERY rational strictly between A and B (all of them round alike because r has at least
p + 2 bits), resp. of A itself when the root is exact.  Consequence used by the accuracy theorems (`SqrtOK`):
(1−u)² v ≤ y² ≤ (1+u)² v.
-/
import FAVerif.Lemmas.SoftDiv
import FAVerif.Lemmas.RelErr
import FAVerif.Lemmas.RNE
import FAVerif.Lemmas.EFTBits

namespace FAVerif.SoftRound
open FAVerif.FP FAVerif.FPQ

/-- shape of `FP.sqrt` on a positive finite operand -/
theorem sqrt_struct (f : Fmt) (a m : Nat) (e : Int) (ha : decode f a = .fin false m e) (hm : m ≠ 0) (hmp : m < 2 ^ f.p) :
    ∃ (r : Nat) (E : Int) (M : Nat), FP.sqrt f a = roundFin f false r E (r * r != M) ∧ 2 ^ (f.p + 1) ≤ r ∧
      r * r ≤ M ∧ M < (r + 1) * (r + 1) ∧ (M : ℚ) * 2 ^ (2 * E) = (m : ℚ) * 2 ^ e ∧ e - (2 * f.p + 5 : ℕ) ≤ 2 * E := by
  have hmpos : 0 < m := Nat.pos_of_ne_zero hm
  obtain ⟨hb1, hb2, hb3⟩ := bitLen_bounds hmpos
  have hbl : bitLen m ≤ f.p := by
    by_contra hc
    push Not at hc
    have : 2 ^ f.p ≤ 2 ^ (bitLen m - 1) := Nat.pow_le_pow_right (by norm_num) (by omega)
    omega
  set k0 := 2 * f.p + 4 - bitLen m with hk0
  set k := if (e - (k0 : Int)) % 2 = 0 then k0 else k0 + 1 with hk
  set M := m * 2 ^ k with hM
  set r := Nat.sqrt M with hr
  have hs : FP.sqrt f a = roundFin f false r ((e - (k : Int)) / 2) (r * r != M) := by
    unfold FP.sqrt
    simp only [ha, hm, if_false, Bool.false_eq_true]
    rfl
  have hkge : k0 ≤ k := by rw [hk]; split <;> omega
  have hkle : k ≤ k0 + 1 := by rw [hk]; split <;> omega
  have heven : (e - (k : Int)) % 2 = 0 := by
    rw [hk]; split
    · assumption
    · push_cast; omega
  obtain ⟨E, hE⟩ : ∃ E : Int, e - (k : Int) = 2 * E := ⟨(e - (k : Int)) / 2, by omega⟩
  have hdiv : (e - (k : Int)) / 2 = E := by omega
  have hMbig : 2 ^ (2 * f.p + 2) ≤ M := by
    calc 2 ^ (2 * f.p + 2) ≤ 2 ^ (bitLen m - 1 + k) := Nat.pow_le_pow_right (by norm_num) (by omega)
      _ = 2 ^ (bitLen m - 1) * 2 ^ k := pow_add _ _ _
      _ ≤ m * 2 ^ k := Nat.mul_le_mul_right _ hb1
  have hrbig : 2 ^ (f.p + 1) ≤ r := by
    rw [hr, Nat.le_sqrt]
    calc 2 ^ (f.p + 1) * 2 ^ (f.p + 1) = 2 ^ (2 * f.p + 2) := by rw [← pow_add]; congr 1; omega
      _ ≤ M := hMbig
  refine ⟨r, E, M, by rw [hs, hdiv], hrbig, Nat.sqrt_le M, Nat.lt_succ_sqrt M, ?_, ?_⟩
  · rw [hM]; push_cast
    have : (e : ℤ) = (k : ℤ) + 2 * E := by omega
    rw [this, zpow_add₀ (by norm_num : (2 : ℚ) ≠ 0), zpow_natCast]; ring
  · push_cast; omega

/-- **`FP.sqrt` is correctly rounded**, in the square form used by the accuracy theorems. -/
theorem sqrt_ok (f : Fmt) (h : WF f) (hem : f.emin + 2 * f.p + 2 ≤ 0) (a m : Nat) (e : Int)
    (ha : decode f a = .fin false m e) (hm : m ≠ 0) (hfin : isFiniteBits f (FP.sqrt f a) = true) :
    ∃ y : ℚ, toQ f (FP.sqrt f a) = some y ∧ 0 ≤ y ∧
      (1 - uro (qf f h.hp)) ^ 2 * ((m : ℚ) * 2 ^ e) ≤ y ^ 2 ∧ y ^ 2 ≤ (1 + uro (qf f h.hp)) ^ 2 * ((m : ℚ) * 2 ^ e) := by
  obtain ⟨hmp, hee⟩ := FAVerif.Refine.decode_bounds f h a false m e ha
  obtain ⟨r, E, M, hs, hrbig, hr1, hr2, hval, hE⟩ := sqrt_struct f a m e ha hm hmp
  set q := qf f h.hp with hq
  set u := uro q with hu
  have hu0 : 0 < u := uro_pos
  have hu1 : u ≤ 1 / 4 := by
    rw [hu]; unfold uro
    have : (2 : ℚ) ^ 2 ≤ 2 ^ q.p := pow_le_pow_right₀ (by norm_num) h.hp
    rw [div_le_div_iff₀ (by positivity) (by norm_num)]
    norm_num at this ⊢; linarith
  have hrn := isRN_rne q
  have hrpos : 0 < r := lt_of_lt_of_le (by positivity) hrbig
  have h2E : (0 : ℚ) < 2 ^ E := by positivity
  set A : ℚ := (r : ℚ) * 2 ^ E with hA
  set B : ℚ := ((r : ℚ) + 1) * 2 ^ E with hB
  have hApos : 0 < A := by positivity
  have hAB : A < B := by rw [hA, hB]; nlinarith
  set v : ℚ := (m : ℚ) * 2 ^ e with hv
  have hpow : (2 : ℚ) ^ (2 * E) = (2 ^ E) ^ 2 := by rw [← zpow_natCast, ← zpow_mul]; congr 1; ring
  have hAv : A ^ 2 ≤ v := by
    rw [← hval, hA, mul_pow, hpow]
    have : ((r * r : ℕ) : ℚ) ≤ (M : ℚ) := by exact_mod_cast hr1
    push_cast at this
    nlinarith [sq_nonneg ((2 : ℚ) ^ E)]
  have hBv : v < B ^ 2 := by
    rw [← hval, hB, mul_pow, hpow]
    have : (M : ℚ) < (((r + 1) * (r + 1) : ℕ) : ℚ) := by exact_mod_cast hr2
    push_cast at this
    have hp2 : (0 : ℚ) < (2 ^ E) ^ 2 := by positivity
    nlinarith
  -- A is in the normal range
  have hAnorm : (2 : ℚ) ^ (q.emin + (q.p : ℤ) - 1) ≤ A := by
    have h1 : (2 : ℚ) ^ ((f.p : ℤ) + 1 + E) ≤ A := by
      rw [hA, zpow_add₀ (by norm_num : (2 : ℚ) ≠ 0)]
      apply mul_le_mul_of_nonneg_right _ h2E.le
      have : ((2 ^ (f.p + 1) : ℕ) : ℚ) ≤ (r : ℚ) := by exact_mod_cast hrbig
      rw [show ((f.p : ℤ) + 1) = ((f.p + 1 : ℕ) : ℤ) by push_cast; ring, zpow_natCast]
      exact_mod_cast this
    have h2 : q.emin + (q.p : ℤ) - 1 ≤ (f.p : ℤ) + 1 + E := by
      show f.emin + (f.p : ℤ) - 1 ≤ _
      push_cast at hE
      omega
    exact le_trans (zpow_le_zpow_right₀ (by norm_num) h2) h1
  have hnormx : ∀ x : ℚ, A ≤ x → x * (1 - u) ≤ rne q x ∧ rne q x ≤ x * (1 + u) := by
    intro x hx
    have hx0 : 0 ≤ x := le_trans hApos.le hx
    have := rn_rel_err hrn (z := x) (Or.inr (by rw [abs_of_nonneg hx0]; exact le_trans hAnorm hx))
    rw [abs_of_nonneg hx0] at this
    have := abs_le.mp this
    constructor <;> nlinarith [this.1, this.2]
  by_cases hst : r * r = M
  · -- exact root
    have hsf : (r * r != M) = false := by simp [hst]
    rw [hsf] at hs
    rw [hs] at hfin ⊢
    obtain ⟨qq, et, hd, hvq⟩ := roundFin_value f h false r hrpos E hfin
    refine ⟨rne q A, ?_, ?_, ?_, ?_⟩
    · rw [toQ_fin f _ false qq et hd]; simp only [valQ, Bool.false_eq_true, if_false, one_mul]; rw [hvq]
    · have := (hnormx A le_rfl).1
      have : 0 ≤ A * (1 - u) := by apply mul_nonneg hApos.le; linarith
      linarith [(hnormx A le_rfl).1]
    · have hAv' : A ^ 2 = v := by
        rw [← hval, hA, mul_pow, hpow]
        have : ((r * r : ℕ) : ℚ) = (M : ℚ) := by exact_mod_cast hst
        push_cast at this
        rw [← this]; ring
      rw [← hAv']
      have h1 := (hnormx A le_rfl).1
      have : (A * (1 - u)) ^ 2 ≤ rne q A ^ 2 := pow_le_pow_left₀ (by apply mul_nonneg hApos.le; linarith) h1 2
      nlinarith
    · have hAv' : A ^ 2 = v := by
        rw [← hval, hA, mul_pow, hpow]
        have : ((r * r : ℕ) : ℚ) = (M : ℚ) := by exact_mod_cast hst
        push_cast at this
        rw [← this]; ring
      rw [← hAv']
      have h0 : 0 ≤ rne q A := by
        have : 0 ≤ A * (1 - u) := by apply mul_nonneg hApos.le; linarith
        linarith [(hnormx A le_rfl).1]
      have : rne q A ^ 2 ≤ (A * (1 + u)) ^ 2 := pow_le_pow_left₀ h0 (hnormx A le_rfl).2 2
      nlinarith
  · -- inexact root: sticky path
    have hsf : (r * r != M) = true := by simp [hst]
    rw [hsf] at hs
    rw [hs] at hfin ⊢
    have hlen : f.p + 2 ≤ bitLen r := by
      obtain ⟨_, hl2, _⟩ := bitLen_bounds hrpos
      by_contra hc
      push Not at hc
      have : 2 ^ bitLen r ≤ 2 ^ (f.p + 1) := Nat.pow_le_pow_right (by norm_num) (by omega)
      omega
    -- the result is the rne of every rational strictly between A and B
    obtain ⟨y, hy⟩ : ∃ y, toQ f (roundFin f false r E true) = some y := (by obtain ⟨s', m', e', hd'⟩ := finite_decode f _ hfin; exact ⟨_, toQ_fin f _ s' m' e' hd'⟩)
    have hall : ∀ x : ℚ, A < x → x < B → y = rne q x := by
      intro x hx1 hx2
      have hx0 : 0 < x := lt_trans hApos hx1
      have hR := roundCore_isRNE_sticky f h.hp r E hlen x hx1 hx2
      obtain ⟨qq, et, hd, hvq⟩ := roundFin_value_of_isRNE f h false r (by omega) E true hx0 hR hfin
      rw [toQ_fin f _ false qq et hd] at hy
      simp only [valQ, Bool.false_eq_true, if_false, one_mul, Option.some.injEq] at hy
      rw [← hy, hvq]
    have hmid : A < (A + B) / 2 ∧ (A + B) / 2 < B := by constructor <;> linarith
    have hy0 : 0 < y := by
      have := hall _ hmid.1 hmid.2
      have h1 := (hnormx ((A + B) / 2) hmid.1.le).1
      have : 0 < (A + B) / 2 * (1 - u) := by apply mul_pos (by linarith); linarith
      linarith
    -- y ≤ A (1+u)
    have hup : y ≤ A * (1 + u) := by
      by_contra hc
      push Not at hc
      have hyA : A < y / (1 + u) := by rw [lt_div_iff₀ (by linarith)]; exact hc
      set x := min ((A + B) / 2) ((A + y / (1 + u)) / 2) with hx
      have hxA : A < x := lt_min hmid.1 (by linarith)
      have hxB : x < B := lt_of_le_of_lt (min_le_left _ _) hmid.2
      have hxy : x < y / (1 + u) := lt_of_le_of_lt (min_le_right _ _) (by linarith)
      have := (hnormx x hxA.le).2
      rw [← hall x hxA hxB] at this
      rw [lt_div_iff₀ (by linarith)] at hxy
      linarith
    have hlo : B * (1 - u) ≤ y := by
      by_contra hc
      push Not at hc
      have hyB : y / (1 - u) < B := by rw [div_lt_iff₀ (by linarith)]; exact hc
      set x := max ((A + B) / 2) ((B + y / (1 - u)) / 2) with hx
      have hxB : x < B := max_lt hmid.2 (by linarith)
      have hxA : A < x := lt_of_lt_of_le hmid.1 (le_max_left _ _)
      have hxy : y / (1 - u) < x := lt_of_lt_of_le (by linarith) (le_max_right _ _)
      have := (hnormx x hxA.le).1
      rw [← hall x hxA hxB] at this
      rw [div_lt_iff₀ (by linarith)] at hxy
      linarith
    refine ⟨y, hy, hy0.le, ?_, ?_⟩
    · have hB0 : 0 ≤ B * (1 - u) := by apply mul_nonneg (by linarith); linarith
      have : (B * (1 - u)) ^ 2 ≤ y ^ 2 := pow_le_pow_left₀ hB0 hlo 2
      have h1 : (1 - u) ^ 2 * v ≤ (1 - u) ^ 2 * B ^ 2 := mul_le_mul_of_nonneg_left hBv.le (by positivity)
      nlinarith
    · have : y ^ 2 ≤ (A * (1 + u)) ^ 2 := pow_le_pow_left₀ hy0.le hup 2
      have h1 : (1 + u) ^ 2 * A ^ 2 ≤ (1 + u) ^ 2 * v := mul_le_mul_of_nonneg_left hAv (by positivity)
      nlinarith

end FAVerif.SoftRound
