/-
The executable rounding core of the softfloat (`FP.roundCore`, sticky-free case used by
add / sub / mul / fma / conversions) computes THE round-to-nearest-even of its exact dyadic input:
`IsRNE`, hence equals `FPQ.rne`, hence every theorem of the abstract theory (proved for any
round-to-nearest) holds for the bit-exact arithmetic.
-/
import FAVerif.Lemmas.RNE
import FAVerif.FP.Soft

namespace FAVerif.SoftRound
open FAVerif.FP FAVerif.FPQ

/-- the abstract format of a concrete one -/
def qf (f : Fmt) (hp : 2 ≤ f.p) : QFmt := ⟨f.p, f.emin, hp⟩

lemma bitLen_bounds {m : Nat} (hm : 0 < m) : 2 ^ (bitLen m - 1) ≤ m ∧ m < 2 ^ bitLen m ∧ 1 ≤ bitLen m := by
  have h0 : m ≠ 0 := by omega
  simp only [bitLen, h0, if_false]
  exact ⟨by simpa using Nat.log2_self_le h0, Nat.lt_log2_self, by omega⟩

/-- nearest-even integer rounding of m / 2^k as computed by `roundCore` (sticky-free) -/
lemma rne_div (m k : Nat) (hk : 0 < k) :
    let q0 := m / 2 ^ k
    let rem := m % 2 ^ k
    let half := 2 ^ (k - 1)
    let up : Bool := if rem > half then true else if rem = half then (false || q0 % 2 = 1) else false
    let n : Nat := if up then q0 + 1 else q0
    |((n : ℤ) : ℚ) - (m : ℚ) / 2 ^ k| ≤ 1 / 2 ∧ (|((n : ℤ) : ℚ) - (m : ℚ) / 2 ^ k| = 1 / 2 → Even (n : ℤ)) := by
  intro q0 rem half up n
  have hpow : (2 : ℕ) ^ k = 2 * 2 ^ (k - 1) := by
    obtain ⟨j, rfl⟩ : ∃ j, k = j + 1 := ⟨k - 1, by omega⟩
    simp [pow_succ]; ring
  have hdm : m = q0 * 2 ^ k + rem := by
    have := Nat.div_add_mod m (2 ^ k); simp only [q0, rem]; linarith [Nat.mul_comm (2 ^ k) (m / 2 ^ k)]
  have hrem : rem < 2 ^ k := Nat.mod_lt _ (by positivity)
  have hK : (0 : ℚ) < 2 ^ k := by positivity
  have hKq : ((2 : ℚ) ^ k) = 2 * (half : ℚ) := by
    have : ((2 ^ k : ℕ) : ℚ) = ((2 * 2 ^ (k - 1) : ℕ) : ℚ) := by rw [hpow]
    push_cast at this; simpa [half] using this
  have ht : (m : ℚ) / 2 ^ k = (q0 : ℚ) + (rem : ℚ) / 2 ^ k := by
    rw [hdm]; push_cast; field_simp
  have hremq : (rem : ℚ) < 2 ^ k := by exact_mod_cast hrem
  have hr0 : (0 : ℚ) ≤ rem := by positivity
  have hhalfpos : (0 : ℚ) < half := by simp only [half]; positivity
  rcases Nat.lt_trichotomy rem half with hlt | heq | hgt
  · -- round down
    have hup : up = false := by
      simp only [up]; rw [if_neg (by omega), if_neg (by omega)]
    have hn : n = q0 := by simp only [n, hup]; rfl
    have hfrac : (rem : ℚ) / 2 ^ k < 1 / 2 := by
      rw [div_lt_iff₀ hK, hKq]
      have : (rem : ℚ) < half := by exact_mod_cast hlt
      linarith
    rw [hn, ht]
    have hfr0 : (0 : ℚ) ≤ (rem : ℚ) / 2 ^ k := by positivity
    constructor
    · rw [abs_of_nonpos (by push_cast; linarith)]; push_cast; linarith
    · intro h; rw [abs_of_nonpos (by push_cast; linarith)] at h; push_cast at h; linarith
  · -- tie
    have hfrac : (rem : ℚ) / 2 ^ k = 1 / 2 := by
      rw [div_eq_iff hK.ne', hKq, heq]; ring
    by_cases hodd : q0 % 2 = 1
    · have hup : up = true := by
        simp only [up]; rw [if_neg (by omega), if_pos heq]; simp [hodd]
      have hn : n = q0 + 1 := by simp only [n, hup]; rfl
      rw [hn, ht, hfrac]
      constructor
      · push_cast; rw [abs_of_nonneg (by linarith)]; linarith
      · intro _; exact ⟨((q0 + 1) / 2 : ℕ), by push_cast; omega⟩
    · have hup : up = false := by
        simp only [up]; rw [if_neg (by omega), if_pos heq]; simp [hodd]
      have hn : n = q0 := by simp only [n, hup]; rfl
      rw [hn, ht, hfrac]
      constructor
      · rw [abs_of_nonpos (by push_cast; linarith)]; push_cast; linarith
      · intro _; exact ⟨(q0 / 2 : ℕ), by push_cast; omega⟩
  · -- round up
    have hup : up = true := by simp only [up]; rw [if_pos hgt]
    have hn : n = q0 + 1 := by simp only [n, hup]; rfl
    have hfrac : 1 / 2 < (rem : ℚ) / 2 ^ k := by
      rw [lt_div_iff₀ hK, hKq]
      have : (half : ℚ) < rem := by exact_mod_cast hgt
      linarith
    have hfrac1 : (rem : ℚ) / 2 ^ k < 1 := by rw [div_lt_one hK]; exact hremq
    rw [hn, ht]
    constructor
    · push_cast; rw [abs_of_nonneg (by linarith)]; linarith
    · intro h; push_cast at h; rw [abs_of_nonneg (by linarith)] at h; linarith

/-- **`roundCore` computes the round-to-nearest-even** of the dyadic `m · 2^e` (m > 0). -/
theorem roundCore_isRNE (f : Fmt) (hp : 2 ≤ f.p) (m : Nat) (hm : 0 < m) (e : Int) :
    IsRNE (qf f hp) ((m : ℚ) * 2 ^ e) ((roundCore f m e false).1 : ℤ) (roundCore f m e false).2 := by
  obtain ⟨hl1, hl2, hl3⟩ := bitLen_bounds hm
  set l := bitLen m with hl
  set et : Int := max (e + (l : Int) - (f.p : Int)) f.emin with het
  have hu := zpow_two_pos et
  have hue := zpow_two_pos e
  have hmq1 : (2 : ℚ) ^ ((l : ℤ) - 1) ≤ m := by
    have : ((2 ^ (l - 1) : ℕ) : ℚ) ≤ m := by exact_mod_cast hl1
    rw [show ((l : ℤ) - 1) = ((l - 1 : ℕ) : ℤ) by omega, zpow_natCast]; exact_mod_cast this
  have hmq2 : (m : ℚ) < 2 ^ (l : ℤ) := by
    rw [zpow_natCast]; exact_mod_cast hl2
  -- facts about the grid exponent that hold in both branches
  have hemin : f.emin ≤ et := le_max_right _ _
  have htop : (m : ℚ) * 2 ^ e < 2 ^ f.p * 2 ^ et := by
    have h1 : (l : ℤ) + e ≤ (f.p : ℤ) + et := by have := le_max_left (e + (l : Int) - (f.p : Int)) f.emin; omega
    calc (m : ℚ) * 2 ^ e < 2 ^ (l : ℤ) * 2 ^ e := mul_lt_mul_of_pos_right hmq2 hue
      _ = 2 ^ ((l : ℤ) + e) := by rw [zpow_add₀ (by norm_num : (2 : ℚ) ≠ 0)]
      _ ≤ 2 ^ ((f.p : ℤ) + et) := zpow_le_zpow_right₀ (by norm_num) h1
      _ = 2 ^ f.p * 2 ^ et := by rw [zpow_add₀ (by norm_num : (2 : ℚ) ≠ 0), zpow_natCast]
  have hbot : et = f.emin ∨ (2 : ℚ) ^ (f.p - 1) * 2 ^ et ≤ (m : ℚ) * 2 ^ e := by
    rcases le_total (e + (l : Int) - (f.p : Int)) f.emin with h | h
    · left; exact max_eq_right h
    · right
      have hetv : et = e + (l : Int) - (f.p : Int) := max_eq_left h
      have : (2 : ℚ) ^ (f.p - 1) * 2 ^ et = 2 ^ ((l : ℤ) - 1) * 2 ^ e := by
        rw [hetv, ← zpow_natCast, ← zpow_add₀ (by norm_num : (2 : ℚ) ≠ 0), ← zpow_add₀ (by norm_num : (2 : ℚ) ≠ 0)]
        congr 1
        push_cast [Nat.cast_sub (by omega : 1 ≤ f.p)]
        ring
      rw [this]; exact mul_le_mul_of_nonneg_right hmq1 hue.le
  by_cases hsh : et - e ≤ 0
  · -- exact: the significand is shifted left
    have hrc : roundCore f m e false = (m * 2 ^ (-(et - e)).toNat, et) := by
      simp only [roundCore, ← hl, ← het, hsh, if_true]
    rw [hrc]
    obtain ⟨d, hd⟩ : ∃ d : ℕ, e = et + d := ⟨(e - et).toNat, by omega⟩
    have hdn : (-(et - e)).toNat = d := by omega
    have hval : (((m * 2 ^ d : ℕ) : ℤ) : ℚ) * 2 ^ et - (m : ℚ) * 2 ^ e = 0 := by
      rw [hd, zpow_add₀ (by norm_num : (2 : ℚ) ≠ 0), zpow_natCast]; push_cast; ring
    simp only [hdn]
    refine ⟨hemin, htop, hbot, ?_, ?_⟩
    · rw [hval, abs_zero]; positivity
    · rw [hval, abs_zero]; intro h; have := zpow_two_pos et; linarith
  · -- rounding: the significand is shifted right by k = et - e > 0
    push Not at hsh
    obtain ⟨k, hk⟩ : ∃ k : ℕ, et = e + k := ⟨(et - e).toNat, by omega⟩
    have hkpos : 0 < k := by omega
    have hkn : (et - e).toNat = k := by omega
    have hrc : roundCore f m e false =
        ((if (if m % 2 ^ k > 2 ^ (k - 1) then true else if m % 2 ^ k = 2 ^ (k - 1) then (false || m / 2 ^ k % 2 = 1) else false)
          then m / 2 ^ k + 1 else m / 2 ^ k), et) := by
      simp only [roundCore, ← hl, ← het, not_le.2 hsh, if_false, hkn]
    rw [hrc]
    obtain ⟨hn1, hn2⟩ := rne_div m k hkpos
    skip
    have hx : (m : ℚ) * 2 ^ e = ((m : ℚ) / 2 ^ k) * 2 ^ et := by
      rw [hk, zpow_add₀ (by norm_num : (2 : ℚ) ≠ 0), zpow_natCast]; field_simp
    refine ⟨hemin, htop, hbot, ?_, ?_⟩
    · simp only [qf]
      rw [hx, ← sub_mul, abs_mul, abs_of_pos hu]
      nlinarith
    · simp only [qf]
      intro h
      apply hn2
      rw [hx, ← sub_mul, abs_mul, abs_of_pos hu] at h
      have : |(((if (if m % 2 ^ k > 2 ^ (k - 1) then true else if m % 2 ^ k = 2 ^ (k - 1) then (false || m / 2 ^ k % 2 = 1) else false)
          then m / 2 ^ k + 1 else m / 2 ^ k : ℕ) : ℤ) : ℚ) - (m : ℚ) / 2 ^ k| * 2 ^ et = (1 / 2) * 2 ^ et := by rw [h]; ring
      exact mul_right_cancel₀ hu.ne' this

/-- The value computed by `roundCore` is `rne` of the exact input. -/
theorem roundCore_eq_rne (f : Fmt) (hp : 2 ≤ f.p) (m : Nat) (hm : 0 < m) (e : Int) :
    (((roundCore f m e false).1 : ℤ) : ℚ) * 2 ^ (roundCore f m e false).2 = rne (qf f hp) ((m : ℚ) * 2 ^ e) := by
  have hx : (0 : ℚ) < (m : ℚ) * 2 ^ e := by have := zpow_two_pos e; positivity
  exact (rne_pos hx (roundCore_isRNE f hp m hm e)).symm

end FAVerif.SoftRound
