/-
No-overflow of the exponential argument reduction from a bound on the input: the five finiteness hypotheses of
`exp_spec_bits` / `exp_reduction_bits_*` are consequences of |x| ≤ 2^a (a small), so the bit-level statements hold for
every input pattern of the documented domain (the `floor` oracle stays an assumption).
-/
import FAVerif.Lemmas.ExpBits
import FAVerif.Lemmas.OverflowSound

namespace FAVerif.Refine
open FAVerif.FP FAVerif.FPQ FAVerif.SoftRound FAVerif.Ovf

theorem exp_finite_of_bound (f : Fmt) (hf : WF f) (cV cHalf cH cL x kb : Nat) (V H L qx : ℚ) (a : ℤ) (ha0 : 0 ≤ a) (hak : a + 4 ≤ kmax f)
    (hem : f.emin ≤ 0)
    (fV : isFiniteBits f cV = true) (vV : toQ f cV = some V) (fHf : isFiniteBits f cHalf = true) (vHf : toQ f cHalf = some (1 / 2))
    (fH : isFiniteBits f cH = true) (vH : toQ f cH = some H) (fL : isFiniteBits f cL = true) (vL : toQ f cL = some L)
    (hV : |V| ≤ 2) (hH : |H| ≤ 1) (hLL : |L| ≤ 1)
    (fx : isFiniteBits f x = true) (vx : toQ f x = some qx) (hX : |qx| ≤ 2 ^ a)
    (fk : isFiniteBits f kb = true) (k : ℤ) (vk : toQ f kb = some (k : ℚ))
    (hfloor : ∀ q2, toQ f (FP.add f (FP.mul f cV x) cHalf) = some q2 → k = ⌊q2⌋) :
    isFiniteBits f (FP.mul f cV x) = true ∧ isFiniteBits f (FP.add f (FP.mul f cV x) cHalf) = true ∧
    isFiniteBits f (FP.mul f kb cH) = true ∧ isFiniteBits f (FP.sub f x (FP.mul f kb cH)) = true ∧
    isFiniteBits f (FP.mul f (FP.neg f kb) cL) = true := by
  have hr := isRN_rne (qf f hf.hp)
  set r := rne (qf f hf.hp) with hrdef
  have hemq : ∀ j : ℤ, 0 ≤ j → (qf f hf.hp).emin ≤ a + j := fun j hj => by show f.emin ≤ a + j; omega
  have hLm : ∀ j : ℤ, j ≤ 4 → (2 : ℚ) ^ (a + j) ≤ Lmax f := fun j hj =>
    le_trans (zpow_le_zpow_right₀ (by norm_num) (by omega)) (pow_kmax_le_Lmax f hf)
  have hpow : ∀ j : ℤ, (2 : ℚ) ^ (a + j + 1) = 2 ^ (a + j) + 2 ^ (a + j) := fun j => by
    rw [zpow_add₀ (by norm_num : (2 : ℚ) ≠ 0)]; norm_num; ring
  have hmono : ∀ i j : ℤ, i ≤ j → (2 : ℚ) ^ (a + i) ≤ 2 ^ (a + j) := fun i j h => zpow_le_zpow_right₀ (by norm_num) (by omega)
  obtain ⟨sV, mV, eV, dV, rfl, _⟩ := float_decode (rv_float_mk fV vV)
  obtain ⟨sh, mh, eh, dh, ehv, _⟩ := float_decode (rv_float_mk fHf vHf)
  obtain ⟨sH, mH, eH, dH, rfl, _⟩ := float_decode (rv_float_mk fH vH)
  obtain ⟨sL, mL, eL, dL, rfl, _⟩ := float_decode (rv_float_mk fL vL)
  obtain ⟨sx, mx, ex, dx, rfl, _⟩ := float_decode (rv_float_mk fx vx)
  obtain ⟨sk, mk, ek, dk, ekv, _⟩ := float_decode (rv_float_mk fk vk)
  -- node 1: V·x
  have b1 : |valQ sV mV eV * valQ sx mx ex| ≤ 2 ^ (a + 1) := by
    rw [abs_mul, zpow_add₀ (by norm_num : (2 : ℚ) ≠ 0), mul_comm ((2 : ℚ) ^ a)]
    exact mul_le_mul (by simpa using hV) hX (abs_nonneg _) (by norm_num)
  have r1 := abs_rn_le_pow hr (hemq 1 (by norm_num)) b1
  have f1 := mul_finite f hf cV x sV sx mV mx eV ex dV dx (le_trans r1 (hLm 1 (by norm_num)))
  have v1 := mul_correct f hf cV x sV sx mV mx eV ex dV dx f1
  obtain ⟨s1, m1, e1, d1⟩ := finite_decode f _ f1
  have e1' : valQ s1 m1 e1 = r (valQ sV mV eV * valQ sx mx ex) := by
    have := toQ_fin f _ s1 m1 e1 d1; rw [v1] at this; exact (Option.some.inj this).symm
  -- node 2: + 1/2
  have hhalf : |valQ sh mh eh| ≤ 2 ^ (a + 1) := by
    rw [← ehv]
    have : (1 : ℚ) ≤ 2 ^ (a + 1) := one_le_zpow₀ (by norm_num) (by omega)
    rw [abs_of_pos (by norm_num)]; linarith
  have b2 : |valQ s1 m1 e1 + valQ sh mh eh| ≤ 2 ^ (a + 2) := by
    have := hpow 1
    rw [show a + 1 + 1 = a + 2 by ring] at this
    rw [this, e1']
    exact le_trans (abs_add_le _ _) (add_le_add r1 hhalf)
  have r2 := abs_rn_le_pow hr (hemq 2 (by norm_num)) b2
  have f2 := add_finite f hf _ cHalf s1 sh m1 mh e1 eh d1 dh (le_trans r2 (hLm 2 (by norm_num)))
  have v2 := add_correct f hf _ cHalf s1 sh m1 mh e1 eh d1 dh f2
  -- k = floor(q2)
  have hk := hfloor _ v2
  have hkabs : |(k : ℚ)| ≤ 2 ^ (a + 3) := by
    have h1 := Int.floor_le (r (valQ s1 m1 e1 + valQ sh mh eh))
    have h2 := Int.lt_floor_add_one (r (valQ s1 m1 e1 + valQ sh mh eh))
    rw [← hk] at h1 h2
    have h3 := abs_le.mp r2
    have h4 : (1 : ℚ) ≤ 2 ^ (a + 2) := one_le_zpow₀ (by norm_num) (by omega)
    have := hpow 2
    rw [show a + 2 + 1 = a + 3 by ring] at this
    rw [this, abs_le]
    constructor <;> linarith [h3.1, h3.2]
  -- node P: k·H
  have bP : |valQ sk mk ek * valQ sH mH eH| ≤ 2 ^ (a + 3) := by
    rw [← ekv, abs_mul]
    calc |(k : ℚ)| * |valQ sH mH eH| ≤ 2 ^ (a + 3) * 1 := mul_le_mul hkabs hH (abs_nonneg _) (by positivity)
      _ = 2 ^ (a + 3) := by ring
  have rP := abs_rn_le_pow hr (hemq 3 (by norm_num)) bP
  have fP := mul_finite f hf kb cH sk sH mk mH ek eH dk dH (le_trans rP (hLm 3 (by norm_num)))
  have vP := mul_correct f hf kb cH sk sH mk mH ek eH dk dH fP
  obtain ⟨sP, mP, eP, dP⟩ := finite_decode f _ fP
  have eP' : valQ sP mP eP = r (valQ sk mk ek * valQ sH mH eH) := by
    have := toQ_fin f _ sP mP eP dP; rw [vP] at this; exact (Option.some.inj this).symm
  -- node r: x − P
  have br : |valQ sx mx ex - valQ sP mP eP| ≤ 2 ^ (a + 4) := by
    have := hpow 3
    rw [show a + 3 + 1 = a + 4 by ring] at this
    rw [this, eP']
    refine le_trans (abs_sub _ _) (add_le_add (le_trans hX ?_) rP)
    have := hmono 0 3 (by norm_num); simpa using this
  have rr := abs_rn_le_pow hr (hemq 4 (by norm_num)) br
  have fr := sub_finite f hf x _ sx sP mx mP ex eP dx dP (le_trans rr (hLm 4 (by norm_num)))
  -- node c: (−k)·L
  have dnk := decode_neg f hf kb sk mk ek dk
  have bc : |valQ (!sk) mk ek * valQ sL mL eL| ≤ 2 ^ (a + 3) := by
    rw [valQ_neg, ← ekv, abs_mul, abs_neg]
    calc |(k : ℚ)| * |valQ sL mL eL| ≤ 2 ^ (a + 3) * 1 := mul_le_mul hkabs hLL (abs_nonneg _) (by positivity)
      _ = 2 ^ (a + 3) := by ring
  have rc := abs_rn_le_pow hr (hemq 3 (by norm_num)) bc
  have fc := mul_finite f hf _ cL (!sk) sL mk mL ek eL dnk dL (le_trans rc (hLm 3 (by norm_num)))
  exact ⟨f1, f2, fP, fr, fc⟩

end FAVerif.Refine
