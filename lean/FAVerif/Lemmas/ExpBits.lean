/-
The documented exponential-type reduction on BIT PATTERNS: the softfloat values of
k = floor(x·ln2inv + ½), r = x − k·ln2hi, c = (−k)·ln2lo are the ℚ-expressions of `exp_reduction`
with round-to-nearest-even, whenever every intermediate pattern is finite and the `floor` oracle
returns the pattern of the mathematical floor.
-/
import FAVerif.Lemmas.Refine
import FAVerif.Lemmas.ExpRed

namespace FAVerif.Refine
open FAVerif.FP FAVerif.FPQ FAVerif.SoftRound

theorem exp_spec_bits (f : Fmt) (hf : WF f) (cV cHalf cH cL x kb : Nat) (V H L qx : ℚ)
    (fV : isFiniteBits f cV = true) (vV : toQ f cV = some V) (fHf : isFiniteBits f cHalf = true) (vHf : toQ f cHalf = some (1 / 2))
    (fH : isFiniteBits f cH = true) (vH : toQ f cH = some H) (fL : isFiniteBits f cL = true) (vL : toQ f cL = some L)
    (fx : isFiniteBits f x = true) (vx : toQ f x = some qx)
    (f1 : isFiniteBits f (FP.mul f cV x) = true) (f2 : isFiniteBits f (FP.add f (FP.mul f cV x) cHalf) = true)
    (fk : isFiniteBits f kb = true) (k : ℤ) (vk : toQ f kb = some (k : ℚ))
    (hfloor : ∀ q2, toQ f (FP.add f (FP.mul f cV x) cHalf) = some q2 → k = ⌊q2⌋)
    (fP : isFiniteBits f (FP.mul f kb cH) = true) (fr : isFiniteBits f (FP.sub f x (FP.mul f kb cH)) = true)
    (fc : isFiniteBits f (FP.mul f (FP.neg f kb) cL) = true) :
    let r := rne (qf f hf.hp)
    k = ⌊r (r (qx * V) + 1 / 2)⌋ ∧
    toQ f (FP.sub f x (FP.mul f kb cH)) = some (r (qx - r ((k : ℚ) * H))) ∧
    toQ f (FP.mul f (FP.neg f kb) cL) = some (-r ((k : ℚ) * L)) := by
  intro r
  obtain ⟨sV, mV, eV, dV, rfl, _⟩ := float_decode (rv_float_mk fV vV)
  obtain ⟨sh, mh, eh, dh, ehv, _⟩ := float_decode (rv_float_mk fHf vHf)
  obtain ⟨sH, mH, eH, dH, rfl, _⟩ := float_decode (rv_float_mk fH vH)
  obtain ⟨sL, mL, eL, dL, rfl, _⟩ := float_decode (rv_float_mk fL vL)
  obtain ⟨sx, mx, ex, dx, rfl, _⟩ := float_decode (rv_float_mk fx vx)
  have v1 := mul_correct f hf cV x sV sx mV mx eV ex dV dx f1
  obtain ⟨s1, m1, e1, d1⟩ := finite_decode f _ f1
  have e1' : valQ s1 m1 e1 = r (valQ sV mV eV * valQ sx mx ex) := by
    have := toQ_fin f _ s1 m1 e1 d1; rw [v1] at this; exact (Option.some.inj this).symm
  have v2 := add_correct f hf _ cHalf s1 sh m1 mh e1 eh d1 dh f2
  rw [e1', ← ehv] at v2
  have hk := hfloor _ v2
  obtain ⟨sk, mk, ek, dk, ekv, _⟩ := float_decode (rv_float_mk fk vk)
  have vP := mul_correct f hf kb cH sk sH mk mH ek eH dk dH fP
  rw [← ekv] at vP
  obtain ⟨sP, mP, eP, dP⟩ := finite_decode f _ fP
  have eP' : valQ sP mP eP = r ((k : ℚ) * valQ sH mH eH) := by
    have := toQ_fin f _ sP mP eP dP; rw [vP] at this; exact (Option.some.inj this).symm
  have vr := sub_correct f hf x _ sx sP mx mP ex eP dx dP fr
  rw [eP'] at vr
  obtain ⟨g1, g2⟩ := neg_val hf fk vk
  obtain ⟨sn, mn, en, dn, env, _⟩ := float_decode (rv_float_mk g1 g2)
  have vc := mul_correct f hf _ cL sn sL mn mL en eL dn dL fc
  rw [← env] at vc
  refine ⟨?_, vr, ?_⟩
  · rw [hk, mul_comm (valQ sx mx ex)]
  · rw [vc]
    congr 1
    have : -(k : ℚ) * valQ sL mL eL = -((k : ℚ) * valQ sL mL eL) := by ring
    rw [this]
    exact rne_neg _

end FAVerif.Refine
