import FAVerif.Lemmas.NextAfter
import FAVerif.IR.EvalQ
import FAVerif.Models.Compound

namespace FAVerif.NextProg
open FAVerif.IR FAVerif.FPQ FAVerif.Spec FAVerif.FP

theorem decode_zero (f : Fmt) (h : f.expMax ≠ 0) : (decode f 0).toRat? = some 0 := by
  have h' : ¬ (0 = f.expMax) := fun e => h e.symm
  simp [decode, fields, V.toRat?, h']

/-- Symbolic evaluation of the `next` program: select(x > 0 | x < 0, RN(x / c), RN(c · x)). -/
theorem evalQ_nextProg (f g : Fmt) (r : ℚ → ℚ) (x c : ℚ) (up : Bool)
    (hc : (decode f (cNextBits g)).toRat? = some c) (hc0 : c ≠ 0) (hf : f.expMax ≠ 0) :
    evalQ f r (nextProg g up) [6] [x] =
      some [if (if up then 0 < x else x < 0) then r (x / c) else r (c * x)] := by
  have h0 := decode_zero f hf
  cases up <;>
    simp [evalQ, evalNodesQ, evalNodeQ, nextProg, hc, h0, hc0, q2b] <;>
    split <;> simp_all

end FAVerif.NextProg
