/-
Helper lemmas for C19, top file: outcome tables, the bundle theorem for the bounded regimes, conversion of
sort-key statements to float comparisons, the link `key = FP.ord`, well-formedness of the three dtypes.
(Parts: SamplesCore, SamplesBounded, SamplesStraddle, SamplesUnbounded, SamplesAll, SamplesRange, SamplesProducts.)
-/
import FAVerif.Lemmas.SamplesRange
import FAVerif.Lemmas.SamplesProducts
namespace FAVerif.Samples
open FAVerif.FP

instance exceptDecEq {ε α} [DecidableEq ε] [DecidableEq α] : DecidableEq (Except ε α) := fun a b =>
  match a, b with
  | .ok x, .ok y => if h : x = y then isTrue (by rw [h]) else isFalse (by intro e; injection e; contradiction)
  | .error x, .error y => if h : x = y then isTrue (by rw [h]) else isFalse (by intro e; injection e; contradiction)
  | .ok _, .error _ => isFalse (by intro e; cases e)
  | .error _, .ok _ => isFalse (by intro e; cases e)

/-! ### outcome as a function of `num` -/

/-- bounds straddling zero: errors of the split, by the sample counts given to the two sides -/
theorem outcome_straddle' (c : Cfg) (hwf : c.WF) (p : Params) (hub : p.userBounds = true) (lo hi : Nat)
    (hr : resolveBounds c p = (lo, hi)) (h : Straddle c lo hi) (hlo : fl c p lo = lo) (hhi : fl c p hi = hi) :
    let n1 := (apportion c p lo hi).1
    let n2 := (apportion c p lo hi).2
    (n1 = 1 → realSamplesF c 2 p = .error .zeroDivision) ∧
    (n1 < 0 → realSamplesF c 2 p = .error .assertion) ∧
    ((n1 = 0 ∨ 2 ≤ n1) → n2 = 1 → realSamplesF c 2 p = .error .zeroDivision) ∧
    ((n1 = 0 ∨ 2 ≤ n1) → n2 < 0 → realSamplesF c 2 p = .error .assertion) ∧
    ((n1 = 0 ∨ 2 ≤ n1) → (n2 = 0 ∨ 2 ≤ n2) → ∃ L, realSamplesF c 2 p = .ok L) := by
  intro n1 n2
  have hcap := hwf.cap_ge
  obtain ⟨a1, a2, a3, a4, a5, a6, a7⟩ := negCall_facts c hwf p lo hi h hlo
  obtain ⟨b1, b2, b3, b4, b5, b6, b7⟩ := posCall_facts c hwf p lo hi h hhi
  obtain ⟨na, nb, nc⟩ := outcome_same_sign' c hwf 0 _ a1 lo _ a2 (Or.inr a3)
  obtain ⟨pa, pb, pc⟩ := outcome_same_sign' c hwf 0 _ b1 _ hi b2 (Or.inl b3)
  have hu := straddle_unfold c hwf 0 p hub lo hi hr h
  have hnegok : (n1 = 0 ∨ 2 ≤ n1) → ∃ N, realSamplesF c (0 + 1) (negCall c p lo hi) = .ok N := by
    intro hn
    rcases hn with hn | hn
    · exact ⟨[], nb (by rw [a4]; show min n1 _ = 0; omega)⟩
    · obtain ⟨N, e, _⟩ := main_neg c hwf 0 _ a1 lo _ 0 a2 a3 (by rw [a4]; show 2 ≤ min n1 _; omega) (by rw [a5]; exact hlo) (by rw [a5]; exact a6)
      exact ⟨N, e⟩
  refine ⟨?_, ?_, ?_, ?_, ?_⟩
  · intro e; rw [show (2 : Nat) = 0 + 2 from rfl, hu, na (by rw [a4]; show min n1 _ = 1; omega)]
  · intro e; rw [show (2 : Nat) = 0 + 2 from rfl, hu, nc (by rw [a4]; show min n1 _ < 0; omega)]
  · intro hn e
    obtain ⟨N, eN⟩ := hnegok hn
    rw [show (2 : Nat) = 0 + 2 from rfl, hu, eN, pa (by rw [b4]; show min n2 _ = 1; omega)]
  · intro hn e
    obtain ⟨N, eN⟩ := hnegok hn
    rw [show (2 : Nat) = 0 + 2 from rfl, hu, eN, pc (by rw [b4]; show min n2 _ < 0; omega)]
  · intro hn hp
    obtain ⟨N, eN⟩ := hnegok hn
    have : ∃ P, realSamplesF c (0 + 1) (posCall c p lo hi) = .ok P := by
      rcases hp with hp | hp
      · exact ⟨[], pb (by rw [b4]; show min n2 _ = 0; omega)⟩
      · obtain ⟨P, e, _⟩ := main_pos c hwf 0 _ b1 _ hi 0 b2 b3 (by rw [b4]; show 2 ≤ min n2 _; omega) (by rw [b5]; exact b6) (by rw [b5]; exact hhi)
        exact ⟨P, e⟩
    obtain ⟨P, eP⟩ := this
    exact ⟨_, by rw [show (2 : Nat) = 0 + 2 from rfl, hu, eN, eP]⟩


/-! ### the bundle for the bounded regimes -/

/-- Inputs on which the bounded clauses of the property hold for the code as written: user bounds whose resolved
values are numbers with `lo < hi`, no zero bound of the wrong sign (`SamePos`/`SameNeg`/`Straddle` exclude
`min_value = -0.0 < max_value` and `min_value < max_value = +0.0`), and at least two samples requested
(same sign) resp. apportioned to each side (straddling zero). -/
def Sane (c : Cfg) (p : Params) : Prop :=
  p.userBounds = true ∧
  (((SamePos c (resolveBounds c p).1 (resolveBounds c p).2 ∨ SameNeg c (resolveBounds c p).1 (resolveBounds c p).2) ∧
      2 ≤ numOf c p) ∨
   (Straddle c (resolveBounds c p).1 (resolveBounds c p).2 ∧
      2 ≤ (apportion c p (resolveBounds c p).1 (resolveBounds c p).2).1 ∧
      2 ≤ (apportion c p (resolveBounds c p).1 (resolveBounds c p).2).2))

theorem resolve_fl (c : Cfg) (hwf : c.WF) (p : Params) :
    fl c p (resolveBounds c p).1 = (resolveBounds c p).1 ∧ fl c p (resolveBounds c p).2 = (resolveBounds c p).2 :=
  ⟨adjustLo_fl c hwf p _, adjustHi_fl c hwf p _⟩

theorem bounded_main (c : Cfg) (hwf : c.WF) (p : Params) (h : Sane c p) :
    ∃ L qn qp, realSamples c p = .ok L ∧ ResOK c (resolveBounds c p).1 (resolveBounds c p).2 qn qp L ∧
      (p.unique = true → StrictSorted c L) ∧
      (Straddle c (resolveBounds c p).1 (resolveBounds c p).2 → p.includeZero = true → ∃ z ∈ L, skey c z = 0) := by
  obtain ⟨hub, h⟩ := h
  obtain ⟨hlo, hhi⟩ := resolve_fl c hwf p
  have hi' : c.inf < c.sb := by have := hwf.inf_sb; omega
  rcases h with ⟨h | h, hn⟩ | ⟨h, h1, h2⟩
  · obtain ⟨L, e, r, s⟩ := main_pos c hwf 1 p hub _ _ 0 rfl h hn hlo hhi
    refine ⟨L, _, _, e, r, s, ?_⟩
    intro hs; exfalso; have := h.1; have := h.2; have := hs.1; have := hs.2.2.2; omega
  · obtain ⟨L, e, r, s⟩ := main_neg c hwf 1 p hub _ _ 0 rfl h hn hlo hhi
    refine ⟨L, _, _, e, r, s, ?_⟩
    intro hs; exfalso; have := h.1; have := h.2.1; have := hs.2.2.2; omega
  · obtain ⟨L, qn, qp, e, r, s, z⟩ := main_straddle c hwf 0 p hub _ _ rfl h hlo hhi h1 h2
    exact ⟨L, qn, qp, e, r, s, fun _ => z⟩

/-- Resolved bounds that are numbers with `lo < hi` and without a zero bound of the wrong sign: exactly one of
`0 ≤ lo < hi` (patterns `+0 ≤ lo`), `lo < hi ≤ -0` (pattern of `hi` at least `-0`), `lo < 0 < hi`.  Excluded are
NaN bounds, `lo = hi`, `lo > hi` (ValueError) and the two defective shapes `lo = -0.0 < hi`, `lo < hi = +0.0`. -/
def Regime (c : Cfg) (p : Params) : Prop :=
  SamePos c (resolveBounds c p).1 (resolveBounds c p).2 ∨ SameNeg c (resolveBounds c p).1 (resolveBounds c p).2 ∨
  Straddle c (resolveBounds c p).1 (resolveBounds c p).2

/-- every successful call with user bounds in a `Regime`: sorted, within the bounds, equally spaced; zero present when
the bounds straddle zero and `include_zero` -/
theorem range_main (c : Cfg) (hwf : c.WF) (p : Params) (hub : p.userBounds = true) (hreg : Regime c p)
    (L : List Nat) (hL : realSamples c p = .ok L) :
    ∃ qn qp, RangeOK c (resolveBounds c p).1 (resolveBounds c p).2 qn qp L ∧
      (Straddle c (resolveBounds c p).1 (resolveBounds c p).2 → p.includeZero = true → ∃ z ∈ L, skey c z = 0) := by
  obtain ⟨hlo, hhi⟩ := resolve_fl c hwf p
  rcases hreg with h | h | h
  · obtain ⟨qp, hq⟩ := (same_sign_range c hwf 1 p hub _ _ rfl (Or.inl h) hlo hhi L hL).1 h
    refine ⟨0, qp, hq 0, ?_⟩
    intro hs; exfalso; have := h.1; have := h.2; have := hs.1; have := hs.2.2.2; have := hwf.inf_sb; omega
  · obtain ⟨qn, hq⟩ := (same_sign_range c hwf 1 p hub _ _ rfl (Or.inr h) hlo hhi L hL).2 h
    refine ⟨qn, 0, hq 0, ?_⟩
    intro hs; exfalso; have := h.1; have := h.2.1; have := hs.2.2.2; have := hwf.inf_sb; omega
  · obtain ⟨qn, qp, r, z⟩ := straddle_range c hwf p hub _ _ rfl h hlo hhi L hL
    exact ⟨qn, qp, r, fun _ => z⟩

theorem regime_not_nan (c : Cfg) (hwf : c.WF) (lo hi : Nat) (h : SamePos c lo hi ∨ SameNeg c lo hi ∨ Straddle c lo hi) :
    isNaN c lo = false ∧ isNaN c hi = false := by
  have hi' : c.inf < c.sb := by have := hwf.inf_sb; omega
  rcases h with ⟨h1, h2⟩ | ⟨h1, h2, h3⟩ | ⟨h1, h2, h3, h4⟩
  · exact ⟨isNaN_false_pos c hi' (by omega), isNaN_false_pos c hi' h2⟩
  · exact ⟨isNaN_false_neg c (by omega) h3, isNaN_false_neg c h1 (by omega)⟩
  · exact ⟨isNaN_false_neg c (by omega) h2, isNaN_false_pos c hi' h4⟩

theorem not_nan_of_skey_le (c : Cfg) (hwf : c.WF) {x b : Nat} (hb : isNaN c b = false) (h : skey c x ≤ skey c b) :
    isNaN c x = false := by
  have := hwf.inf_sb
  rcases skey_cases c x with ⟨_, _, e, ex⟩ | ⟨_, _, e, ex⟩ | ⟨_, _, e, ex⟩ | ⟨_, _, e, ex⟩ <;>
  rcases skey_cases c b with ⟨_, _, e', eb⟩ | ⟨_, _, e', eb⟩ | ⟨_, _, e', eb⟩ | ⟨_, _, e', eb⟩ <;>
  first | exact e | omega | (rw [hb] at e'; cases e')

/-- sort-key range ⇒ float comparisons -/
theorem fle_of_range (c : Cfg) (hwf : c.WF) {lo hi x : Nat} (hl : isNaN c lo = false) (hh : isNaN c hi = false)
    (h : skey c lo ≤ skey c x ∧ skey c x ≤ skey c hi) : fle c lo x = true ∧ fle c x hi = true := by
  have hx := not_nan_of_skey_le c hwf hh h.2
  exact ⟨(fle_iff c lo x).2 ⟨hl, hx, h.1⟩, (fle_iff c x hi).2 ⟨hx, hh, h.2⟩⟩

theorem feq_of_skey (c : Cfg) (hwf : c.WF) {y b : Nat} (hb : isNaN c b = false) (h : skey c y = skey c b) :
    feq c y b = true :=
  (feq_iff c y b).2 ⟨not_nan_of_skey_le c hwf hb (by omega), hb, h⟩

theorem numOf_unbounded_ge (c : Cfg) (hwf : c.WF) (p : Params) (hub : p.userBounds = false) (hs : 6 ≤ p.size) :
    2 ≤ numOf c p := by
  have := hwf.cap_ge
  unfold numOf
  simp only [hub, Bool.not_false, Bool.and_true]
  have hm : (6 : Int) ≤ min p.size (c.cap : Int) := by omega
  generalize min p.size (c.cap : Int) = m at hm
  cases p.nonnegative <;> cases p.includeInfinity <;> simp <;> omega

theorem outcome_unbounded' (c : Cfg) (hwf : c.WF) (k : Nat) (p : Params) (hub : p.userBounds = false) :
    (numOf c p = 1 → realSamplesF c (k + 1) p = .error .zeroDivision) ∧
    (numOf c p ≤ 0 → realSamplesF c (k + 1) p = .error .index) ∧
    (2 ≤ numOf c p → ∃ L, realSamplesF c (k + 1) p = .ok L) := by
  refine ⟨?_, ?_, ?_⟩
  · intro h; rw [rsF_unbounded c hwf k p hub, unbounded_err c p _ _ (by omega), if_pos h]
  · intro h; rw [rsF_unbounded c hwf k p hub, unbounded_err c p _ _ (by omega), if_neg (by omega)]
  · intro h; obtain ⟨L, e, _⟩ := unbounded_spec c hwf k p hub h; exact ⟨L, e⟩

theorem equal_bounds (c : Cfg) (k : Nat) (p : Params) (h : feq c (resolveBounds c p).1 (resolveBounds c p).2 = true) :
    realSamplesF c (k + 1) p = .ok [(resolveBounds c p).1] := by
  rw [realSamplesF]; simp only [h, if_true]

/-! ### link to the shared format definitions -/

theorem key_eq_ord' (f : Fmt) (cap b : Nat) (hb : b < 2 * f.signBit) : key (Cfg.ofFmt f cap) b = ord f b := by
  have hs : 0 < f.signBit := Nat.pos_of_ne_zero (by unfold Fmt.signBit; exact Nat.pos_iff_ne_zero.1 (Nat.two_pow_pos _))
  unfold key ord magBits fields Cfg.ofFmt
  simp only []
  by_cases h : b < f.signBit
  · rw [if_pos h, Nat.div_eq_of_lt h, Nat.mod_eq_of_lt h]; simp
  · have h' : f.signBit ≤ b := by omega
    have hd : b / f.signBit = 1 := Nat.div_eq_of_lt_le (by omega) (by omega)
    have hm : b % f.signBit = b - f.signBit := by
      rw [Nat.mod_eq_sub_mod h', Nat.mod_eq_of_lt (by omega)]
    rw [if_neg h, hd, hm]; simp

theorem cfg_wf' : cfg16.WF ∧ cfg32.WF ∧ cfg64.WF := by
  refine ⟨⟨?_, ?_, ?_, ?_, ?_⟩, ⟨?_, ?_, ?_, ?_, ?_⟩, ⟨?_, ?_, ?_, ?_, ?_⟩⟩ <;> decide

end FAVerif.Samples
