/-
Helper lemmas for C13, part 3: finite patterns as (sign, significand, exponent), exact rounding of
representable dyadics (`roundDyadic`), `float2mpf` yields the canonical tuple and the support port
`mpf2floatC` is the identity on canonical tuples of representable values.
-/
import FAVerif.Lemmas.ConvFrac

namespace FAVerif.Conv
open FAVerif.FP

/-- well-formed significand/exponent pair of a finite float -/
structure WF (f : Fmt) (m : Nat) (e : Int) : Prop where
  lt : m < 2 ^ f.p
  ge : f.emin ≤ e
  norm : 2 ^ (f.p - 1) ≤ m ∨ e = f.emin
  le : e ≤ f.emaxUlp

/-- magnitude bits of the finite float `m * 2^e` -/
def packMag (f : Fmt) (m : Nat) (e : Int) : Nat :=
  if m < 2 ^ (f.p - 1) then m else (e - f.emin + 1).toNat * 2 ^ (f.p - 1) + (m - 2 ^ (f.p - 1))

theorem expMax_ge (f : Fmt) (hew : 2 ≤ f.ew) : 3 ≤ f.expMax := by
  unfold Fmt.expMax
  have : f.ew = (f.ew - 2) + 2 := by omega
  rw [this, Nat.pow_add]
  have := Nat.two_pow_pos (f.ew - 2); omega

theorem emaxUlp_eq (f : Fmt) (hew : 2 ≤ f.ew) : f.emaxUlp = (f.expMax : Int) - 2 + f.emin := by
  unfold Fmt.emaxUlp
  have := expMax_ge f hew
  push_cast [Nat.cast_sub (by omega : 2 ≤ f.expMax)]; ring

theorem pow_p_eq (f : Fmt) (hp : 1 ≤ f.p) : 2 ^ f.p = 2 * 2 ^ (f.p - 1) := by
  have : f.p = (f.p - 1) + 1 := by omega
  conv_lhs => rw [this, Nat.pow_succ]
  omega

/-- The three views of a finite pattern: decode, well-formedness, recomposition. -/
theorem finite_view (f : Fmt) (b : Nat) (hew : 2 ≤ f.ew) (hp : 1 ≤ f.p) (hb : b < 2 ^ f.width)
    (hfin : isFiniteBits f b = true) :
    ∃ m e, decode f b = .fin (fields f b).sign m e ∧ WF f m e ∧
      b = (if (fields f b).sign then f.signBit else 0) + packMag f m e ∧
      (m = 0 ↔ isZerob f b = true) := by
  rw [isFiniteBits_iff] at hfin
  have hdec := fields_decomp f b hp hb
  have hmlt := fields_m_lt f b
  have helt := fields_e_lt f b
  have hE3 := expMax_ge f hew
  have hemax := emaxUlp_eq f hew
  have hpp := pow_p_eq f hp
  have hfb : f.fracBits = f.p - 1 := rfl
  rw [hfb] at hmlt hdec
  by_cases h0 : (fields f b).e = 0
  · refine ⟨(fields f b).m, f.emin, decode_sub f b hfin h0, ⟨by omega, by omega, Or.inr rfl, by omega⟩, ?_, ?_⟩
    · unfold packMag; simp only [hmlt, if_true]
      rw [h0] at hdec; simpa using hdec
    · unfold isZerob; simp [h0]
  · refine ⟨(fields f b).m + 2 ^ f.fracBits, ((fields f b).e : Int) - 1 + f.emin, decode_normal f b hfin h0,
      ⟨by rw [hfb]; omega, by omega, Or.inl (by rw [hfb]; omega), ?_⟩, ?_, ?_⟩
    · have : (fields f b).e < f.expMax := by
        have : (fields f b).e < 2 ^ f.ew := helt
        unfold Fmt.expMax at hfin ⊢; omega
      omega
    · unfold packMag
      rw [hfb]
      have : ¬ ((fields f b).m + 2 ^ (f.p - 1) < 2 ^ (f.p - 1)) := by omega
      simp only [this, if_false]
      have e1 : (((fields f b).e : Int) - 1 + f.emin - f.emin + 1).toNat = (fields f b).e := by omega
      rw [e1]
      have e2 : (fields f b).m + 2 ^ (f.p - 1) - 2 ^ (f.p - 1) = (fields f b).m := by omega
      rw [e2]; omega
    · unfold isZerob
      have : 0 < 2 ^ f.fracBits := Nat.two_pow_pos _
      simp [h0]

theorem finParts_of_decode (f : Fmt) (b : Nat) (s : Bool) (m : Nat) (e : Int) (h : decode f b = .fin s m e) :
    finParts f b = (s, m, e) := by
  unfold finParts; rw [h]

/-! ### roundDyadic on representable values -/

/-- `roundDyadic` is exact: if `m0 * 2^e0 = M * 2^E` with `(M, E)` a well-formed finite float,
the result is the pattern of that float. -/
theorem roundDyadic_exact (f : Fmt) (hew : 2 ≤ f.ew) (hp : 1 ≤ f.p) (sg : Bool) (m0 : Nat) (e0 : Int) (M : Nat) (E : Int)
    (hm0 : m0 ≠ 0) (hwf : WF f M E)
    (hrel : (E ≤ e0 ∧ M = m0 * 2 ^ (e0 - E).toNat) ∨ (e0 < E ∧ m0 = M * 2 ^ (E - e0).toNat)) :
    roundDyadic f sg m0 e0 = (if sg then f.signBit else 0) + packMag f M E := by
  have hM0 : M ≠ 0 := by
    rcases hrel with ⟨_, h⟩ | ⟨_, h⟩
    · rw [h]; have := Nat.two_pow_pos (e0 - E).toNat
      intro hz; rcases Nat.mul_eq_zero.mp hz with h' | h' <;> omega
    · intro hz; rw [hz] at h; simp at h; exact hm0 h
  -- bit lengths
  have hbl : (e0 : Int) + bitLen m0 = E + bitLen M := by
    rcases hrel with ⟨h1, h⟩ | ⟨h1, h⟩
    · rw [h, bitLen_mul_pow _ _ hm0]; push_cast; omega
    · rw [h, bitLen_mul_pow _ _ hM0]; push_cast; omega
  have hblM : bitLen M ≤ f.p := bitLen_le_of_lt _ _ hwf.lt
  have het : max ((e0 : Int) + bitLen m0 - f.p) f.emin = E := by
    rw [hbl]
    rcases hwf.norm with h | h
    · have : bitLen M = f.p := by
        apply bitLen_unique _ _ hp h hwf.lt
      rw [this]; have := hwf.ge; omega
    · rw [h]; omega
  unfold roundDyadic
  simp only [hm0, if_false, het]
  have hm' : (if E ≤ e0 then m0 * 2 ^ (e0 - E).toNat else rshiftRNE m0 (E - e0).toNat) = M := by
    rcases hrel with ⟨h1, h⟩ | ⟨h1, h⟩
    · simp only [h1, if_true]; exact h.symm
    · have : ¬ E ≤ e0 := by omega
      simp only [this, if_false]
      have hpos : 0 < (E - e0).toNat := by omega
      rw [rshiftRNE_exact m0 _ hpos ⟨M, by rw [h]; ring⟩, h]
      exact Nat.mul_div_cancel _ (Nat.two_pow_pos _)
  rw [hm']
  have hne : M ≠ 2 ^ f.p := by have := hwf.lt; omega
  simp only [hne, if_false]
  unfold packMag
  by_cases hsub : M < 2 ^ (f.p - 1)
  · simp only [hsub, if_true]
  · simp only [hsub, if_false]
    have hle := hwf.le
    rw [emaxUlp_eq f hew] at hle
    have : ¬ (E - f.emin + 1 ≥ (f.expMax : Int)) := by omega
    simp only [this, if_false]
    omega

/-! ### decode of a packed normal float -/

theorem decode_packMag_normal (f : Fmt) (hew : 2 ≤ f.ew) (hp : 1 ≤ f.p) (M : Nat) (E : Int) (hwf : WF f M E)
    (hn : 2 ^ (f.p - 1) ≤ M) :
    decode f (packMag f M E) = .fin false M E ∧ isNaNb f (packMag f M E) = false ∧ isInfb f (packMag f M E) = false := by
  have hle := hwf.le
  rw [emaxUlp_eq f hew] at hle
  have hge := hwf.ge
  have hlt := hwf.lt
  have hpp := pow_p_eq f hp
  have hE3 := expMax_ge f hew
  have hfb : f.fracBits = f.p - 1 := rfl
  unfold packMag
  have : ¬ M < 2 ^ (f.p - 1) := by omega
  simp only [this, if_false]
  obtain ⟨k, hk⟩ : ∃ k : Nat, (E - f.emin + 1).toNat = k := ⟨_, rfl⟩
  rw [hk]
  have hk1 : 1 ≤ k := by omega
  have hk2 : k < f.expMax := by omega
  have hk3 : k < 2 ^ f.ew := by unfold Fmt.expMax at hk2; omega
  obtain ⟨r, hr⟩ : ∃ r : Nat, M - 2 ^ (f.p - 1) = r := ⟨_, rfl⟩
  rw [hr]
  have hrlt : r < 2 ^ (f.p - 1) := by omega
  -- fields of k * 2^w + r
  have hsb := signBit_eq f hp
  rw [hfb] at hsb
  have hF : fields f (k * 2 ^ (f.p - 1) + r) = ⟨false, k, r⟩ := by
    unfold fields
    rw [hfb, hsb]
    have h1 : (k * 2 ^ (f.p - 1) + r) / 2 ^ (f.p - 1) = k := by
      rw [Nat.mul_comm, Nat.mul_add_div (Nat.two_pow_pos _), Nat.div_eq_of_lt hrlt]; omega
    have h2 : (k * 2 ^ (f.p - 1) + r) % 2 ^ (f.p - 1) = r := by
      rw [Nat.mul_comm, Nat.mul_add_mod, Nat.mod_eq_of_lt hrlt]
    have h3 : (k * 2 ^ (f.p - 1) + r) / (2 ^ f.ew * 2 ^ (f.p - 1)) = 0 := by
      apply Nat.div_eq_of_lt
      calc k * 2 ^ (f.p - 1) + r < k * 2 ^ (f.p - 1) + 2 ^ (f.p - 1) := by omega
        _ = (k + 1) * 2 ^ (f.p - 1) := by ring
        _ ≤ 2 ^ f.ew * 2 ^ (f.p - 1) := Nat.mul_le_mul_right _ (by omega)
    rw [h1, h2, h3, Nat.mod_eq_of_lt hk3]
    simp
  have hkne : k ≠ f.expMax := by omega
  have hk0 : k ≠ 0 := by omega
  refine ⟨?_, ?_, ?_⟩
  · have hd := decode_normal f (k * 2 ^ (f.p - 1) + r) (by rw [hF]; exact hkne) (by rw [hF]; exact hk0)
    rw [hd, hF]
    simp only [hfb]
    congr 1
    · omega
    · omega
  · unfold isNaNb; rw [hF]; simp [hkne]
  · unfold isInfb; rw [hF]; simp [hkne]


theorem packMag_sub_facts (f : Fmt) (hew : 2 ≤ f.ew) (hp : 1 ≤ f.p) (m : Nat) (hlt : m < 2 ^ (f.p - 1)) :
    fields f m = ⟨false, 0, m⟩ := by
  have hsb := signBit_eq f hp
  have hfb : f.fracBits = f.p - 1 := rfl
  unfold fields
  rw [hfb, hsb, hfb]
  have h1 : m / 2 ^ (f.p - 1) = 0 := Nat.div_eq_of_lt hlt
  have h2 : m % 2 ^ (f.p - 1) = m := Nat.mod_eq_of_lt hlt
  have h3 : m / (2 ^ f.ew * 2 ^ (f.p - 1)) = 0 := by
    apply Nat.div_eq_of_lt
    calc m < 2 ^ (f.p - 1) := hlt
      _ = 1 * 2 ^ (f.p - 1) := by ring
      _ ≤ 2 ^ f.ew * 2 ^ (f.p - 1) := Nat.mul_le_mul_right _ (Nat.two_pow_pos _)
  rw [h1, h2, h3]; simp

/-- the packed magnitude of a well-formed float is a finite pattern below the sign bit -/
theorem packMag_facts (f : Fmt) (hew : 2 ≤ f.ew) (hp : 1 ≤ f.p) (m : Nat) (e : Int) (hwf : WF f m e) :
    isInfb f (packMag f m e) = false ∧ isNaNb f (packMag f m e) = false ∧ packMag f m e < f.signBit := by
  have hE3 := expMax_ge f hew
  by_cases hsub : m < 2 ^ (f.p - 1)
  · have hpm : packMag f m e = m := by unfold packMag; simp [hsub]
    rw [hpm]
    have hF := packMag_sub_facts f hew hp m hsub
    refine ⟨?_, ?_, ?_⟩
    · unfold isInfb; rw [hF]; simp; omega
    · unfold isNaNb; rw [hF]; simp; omega
    · rw [signBit_eq f hp]
      have hfb : f.fracBits = f.p - 1 := rfl
      rw [hfb]
      calc m < 2 ^ (f.p - 1) := hsub
        _ = 1 * 2 ^ (f.p - 1) := by ring
        _ ≤ 2 ^ f.ew * 2 ^ (f.p - 1) := Nat.mul_le_mul_right _ (Nat.two_pow_pos _)
  · have hn : 2 ^ (f.p - 1) ≤ m := by omega
    have hd := decode_packMag_normal f hew hp m e hwf hn
    refine ⟨hd.2.2, hd.2.1, ?_⟩
    -- magnitude bound
    have hle := hwf.le
    rw [emaxUlp_eq f hew] at hle
    have hge := hwf.ge
    have hlt := hwf.lt
    have hpp := pow_p_eq f hp
    unfold packMag
    simp only [hsub, if_false]
    rw [signBit_eq f hp]
    have hfb : f.fracBits = f.p - 1 := rfl
    rw [hfb]
    obtain ⟨k, hk⟩ : ∃ k : Nat, (e - f.emin + 1).toNat = k := ⟨_, rfl⟩
    rw [hk]
    have hk2 : k + 1 ≤ 2 ^ f.ew := by unfold Fmt.expMax at hle hE3; omega
    calc k * 2 ^ (f.p - 1) + (m - 2 ^ (f.p - 1)) < k * 2 ^ (f.p - 1) + 2 ^ (f.p - 1) := by omega
      _ = (k + 1) * 2 ^ (f.p - 1) := by ring
      _ ≤ 2 ^ f.ew * 2 ^ (f.p - 1) := Nat.mul_le_mul_right _ hk2

/-! ### float2mpf produces the canonical tuple -/

def sgnNat (s : Bool) : Nat := if s then 1 else 0

theorem canonT_oddPart (sign m : Nat) (e : Int) (hm : m ≠ 0) :
    canonT sign (oddPart m) (e + tz m) = canonT sign m e := by
  have := canonT_shift sign (oddPart m) (tz m) e (oddPart_ne_zero m hm)
  rw [oddPart_mul] at this
  exact this.symm

theorem fin_not_special (f : Fmt) (b : Nat) (hfin : isFiniteBits f b = true) :
    isInfb f b = false ∧ isNaNb f b = false := by
  rw [isFiniteBits_iff] at hfin
  unfold isInfb isNaNb
  have : ((fields f b).e == f.expMax) = false := by simpa using hfin
  simp [this]

theorem sman_canonT (s : Bool) (m : Nat) (e : Int) (hm : m ≠ 0) :
    (canonT (sgnNat s) m e).sman = (if s then -1 else 1) * (oddPart m : Int) := by
  unfold canonT MpfT.sman sgnNat
  simp only [hm, if_false]
  cases s <;> simp

theorem fromManExp_signed (s : Bool) (n : Nat) (hn : n ≠ 0) (e : Int) (prec : Nat) :
    fromManExp ((if s = true then (-1:Int) else 1) * (n : Int)) e prec = normalize (sgnNat s) n e prec := by
  unfold fromManExp sgnNat
  cases s
  · have : ¬ ((n : Int) < 0) := by omega
    simp [this]
  · have : 0 < n := by omega
    simp [this]

/-- **float2mpf** of a finite pattern is the canonical tuple of its decoded value, provided the
context precision is at least the format precision (or the format is binary64, which mpmath converts exactly). -/
theorem float2mpf_canon (f : Fmt) (b : Nat) (prec : Nat) (s : Bool) (m : Nat) (e : Int)
    (hfin : isFiniteBits f b = true) (hd : decode f b = .fin s m e) (hwf : WF f m e)
    (hprec : f.p ≤ prec ∨ f = binary64) :
    float2mpf f prec b = .ok (canonT (sgnNat s) m e) := by
  have hsp := fin_not_special f b hfin
  have hblm : bitLen m ≤ f.p := bitLen_le_of_lt _ _ hwf.lt
  unfold float2mpf
  simp only [hsp.1, hsp.2, Bool.false_eq_true, if_false]
  rw [finParts_of_decode f b s m e hd]
  simp only
  have hP : sigBits m ≤ (if f = binary64 then bitLen m else prec) := by
    have := sigBits_le_bitLen m
    split
    · exact this
    · rename_i h; rcases hprec with h' | h'
      · omega
      · exact absurd h' h
  rw [normalize_exact _ _ _ _ hP]
  have hsg : (if s = true then 1 else 0) = sgnNat s := rfl
  rw [hsg]
  by_cases hm : m = 0
  · subst hm
    simp [canonT, fzero, fromManExp, normalize, MpfT.sman]
  · have hc : canonT (sgnNat s) m (-(bitLen m : Int)) = ⟨sgnNat s, oddPart m, -(bitLen m : Int) + tz m, sigBits m⟩ := by
      unfold canonT; simp [hm]
    have hodd := oddPart_ne_zero m hm
    have hbl := bitLen_eq_sigBits_add_tz m hm
    rw [hc]
    simp only [hodd, if_false]
    have hnn : ¬ (-(bitLen m : Int) + tz m + f.p < 0) := by omega
    simp only [hnn, if_false, hm]
    -- the integer mantissa
    obtain ⟨k, hk⟩ : ∃ k : Nat, (-(bitLen m : Int) + tz m + f.p).toNat = k := ⟨_, rfl⟩
    rw [hk]
    have hkk : (k : Int) = -(bitLen m : Int) + tz m + f.p := by omega
    have hsm : (MpfT.sman ⟨sgnNat s, oddPart m, -(bitLen m : Int) + tz m + f.p, sigBits m⟩) = (if s then -1 else 1) * (oddPart m : Int) := by
      unfold MpfT.sman sgnNat; cases s <;> simp
    rw [hsm]
    have hman : (if s = true then (-1:Int) else 1) * (oddPart m : Int) * 2 ^ k
        = (if s = true then (-1:Int) else 1) * ((oddPart m * 2 ^ k : Nat) : Int) := by push_cast; ring
    rw [hman, fromManExp_signed s _ (by
      have := Nat.two_pow_pos k
      intro hz; rcases Nat.mul_eq_zero.mp hz with h' | h' <;> omega)]
    have hsig : sigBits (oddPart m * 2 ^ k) ≤ f.p := by
      unfold sigBits
      rw [(tz_mul_pow _ k hodd).2]
      have ht : tz (oddPart m) = 0 := tz_odd _ (oddPart_odd m hm)
      have : oddPart (oddPart m) = oddPart m := by
        show oddPart m / 2 ^ tz (oddPart m) = oddPart m
        rw [ht]; simp
      rw [this]
      have := sigBits_le_bitLen m
      unfold sigBits at this; omega
    rw [normalize_exact _ _ _ _ hsig, canonT_shift _ _ _ _ hodd]
    have : (e + (bitLen m : Int) - (f.p : Int) + (k : Int)) = e + tz m := by omega
    rw [this]
    exact congrArg Except.ok (canonT_oddPart _ m e hm)

/-! ### the support port of mpf2float is the identity on canonical tuples of representable values -/

theorem shrinkTo_le (largest fuel man : Nat) (exp : Int) (h : man ≤ largest) :
    shrinkTo largest fuel man exp = (man, exp) := by
  cases fuel with
  | zero => rfl
  | succ k => unfold shrinkTo; simp [Nat.not_lt.mpr h]

theorem canonT_fields (sg m : Nat) (e : Int) (hm : m ≠ 0) :
    canonT sg m e = ⟨sg, oddPart m, e + tz m, sigBits m⟩ := by
  unfold canonT; simp [hm]

theorem oddPart_idem (m : Nat) (hm : m ≠ 0) : oddPart (oddPart m) = oddPart m ∧ tz (oddPart m) = 0 := by
  have ht : tz (oddPart m) = 0 := tz_odd _ (oddPart_odd m hm)
  refine ⟨?_, ht⟩
  show oddPart m / 2 ^ tz (oddPart m) = oddPart m
  rw [ht]; simp

theorem canonT_isFinite (sg m : Nat) (e : Int) (hm : m ≠ 0) : (canonT sg m e).isFinite = true := by
  rw [canonT_fields sg m e hm]
  have hodd := oddPart_ne_zero m hm
  unfold MpfT.isFinite MpfT.isInf MpfT.isNaN finf fninf fnan
  simp [hodd]

theorem emin_le_zero (f : Fmt) (hew : 2 ≤ f.ew) : f.emin ≤ 1 - (f.fracBits : Int) - 1 := by
  rw [emin_eq]
  have := two_pow_ew_pos f hew
  omega

/-- **mpf2float (support port) on the canonical tuple of a representable non-zero value** returns its pattern. -/
theorem mpf2floatC_canon (f : Fmt) (hew : 2 ≤ f.ew) (hp : 1 ≤ f.p) (hpm : f.p ≤ 2 ^ (f.ew - 1))
    (s : Bool) (m : Nat) (e : Int) (hwf : WF f m e) (hm : m ≠ 0) :
    mpf2floatC f (canonT (sgnNat s) m e) = (if s then f.signBit else 0) + packMag f m e := by
  have hodd := oddPart_ne_zero m hm
  have hbl := bitLen_eq_sigBits_add_tz m hm
  have hblm : bitLen m ≤ f.p := bitLen_le_of_lt _ _ hwf.lt
  have hidem := oddPart_idem m hm
  have hK := two_pow_ew_pos f hew
  have hemin := emin_eq f
  have hfb : f.fracBits = f.p - 1 := rfl
  have hemax := emaxUlp_eq f hew
  have hexpMax : (f.expMax : Int) = 2 * ((2 ^ (f.ew - 1) : Nat) : Int) - 1 := by
    unfold Fmt.expMax
    have : f.ew = (f.ew - 1) + 1 := by omega
    conv_lhs => rw [this, Nat.pow_succ]
    have := Nat.two_pow_pos (f.ew - 1)
    omega
  have hsigpos : 1 ≤ sigBits m := bitLen_pos _ hodd
  have hmaxexp : maxexp f = 2 ^ (f.ew - 1) := rfl
  generalize hKd : 2 ^ (f.ew - 1) = K at *
  unfold mpf2floatC
  rw [canonT_isFinite _ m e hm]
  simp only [if_true]
  -- normalisation at p bits is the identity
  have hnorm : normalize (canonT (sgnNat s) m e).sign (canonT (sgnNat s) m e).man (canonT (sgnNat s) m e).exp f.p
      = ⟨sgnNat s, oddPart m, e + tz m, sigBits m⟩ := by
    rw [canonT_fields _ m e hm]
    simp only
    have : sigBits (oddPart m) ≤ f.p := by
      unfold sigBits; rw [hidem.1]; unfold sigBits at hbl; omega
    rw [normalize_exact _ _ _ _ this, canonT_fields _ _ _ hodd, hidem.1, hidem.2]
    unfold sigBits; rw [hidem.1]; simp
  rw [hnorm]
  simp only
  have hc1 : ¬ (e + (tz m : Int) + (sigBits m : Int) < subexp f) := by
    unfold subexp; have := hwf.ge; omega
  have hc2 : ¬ (e + (tz m : Int) + (sigBits m : Int) > (maxexp f : Int)) := by
    rw [hmaxexp]
    have := hwf.le
    omega
  simp only [hc1, hc2, if_false]
  -- the `while man > largest` loop does nothing
  have hlarge : oddPart m ≤ (2 ^ f.p - 1) * 2 ^ f.emaxUlp.toNat := by
    have h1 : oddPart m ≤ m := Nat.div_le_self _ _
    have h2 : m ≤ 2 ^ f.p - 1 := by have := hwf.lt; omega
    calc oddPart m ≤ 2 ^ f.p - 1 := by omega
      _ = (2 ^ f.p - 1) * 1 := by ring
      _ ≤ (2 ^ f.p - 1) * 2 ^ f.emaxUlp.toNat := Nat.mul_le_mul_left _ (Nat.two_pow_pos _)
  rw [shrinkTo_le _ _ _ _ hlarge]
  simp only
  -- dtype(man): the integer `oddPart m` as a float
  obtain ⟨L, hL⟩ : ∃ L, sigBits m = L := ⟨_, rfl⟩
  have hLp : L ≤ f.p := by omega
  have hLdef : bitLen (oddPart m) = L := hL
  have hn' : 2 ^ (f.p - 1) ≤ oddPart m * 2 ^ (f.p - L) := by
    have := pow_bitLen_le (oddPart m) hodd
    rw [hLdef] at this
    calc 2 ^ (f.p - 1) = 2 ^ (L - 1) * 2 ^ (f.p - L) := by rw [← Nat.pow_add]; congr 1; omega
      _ ≤ oddPart m * 2 ^ (f.p - L) := Nat.mul_le_mul_right _ this
  have hwf' : WF f (oddPart m * 2 ^ (f.p - L)) ((L : Int) - f.p) := by
    refine ⟨?_, ?_, Or.inl hn', ?_⟩
    · have := lt_pow_bitLen (oddPart m)
      rw [hLdef] at this
      calc oddPart m * 2 ^ (f.p - L) < 2 ^ L * 2 ^ (f.p - L) := Nat.mul_lt_mul_of_lt_of_le this (Nat.le_refl _) (Nat.two_pow_pos _)
        _ = 2 ^ f.p := by rw [← Nat.pow_add]; congr 1; omega
    · rw [hemin, hfb]; omega
    · rw [hemax, hemin, hexpMax, hfb]; omega
  have hr0 : roundDyadic f false (oddPart m) 0 = packMag f (oddPart m * 2 ^ (f.p - L)) ((L : Int) - f.p) := by
    have := roundDyadic_exact f hew hp false (oddPart m) 0 _ _ hodd hwf'
      (Or.inl ⟨by omega, by
        have : ((0:Int) - ((L : Int) - f.p)).toNat = f.p - L := by omega
        rw [this]⟩)
    simpa using this
  rw [hr0]
  have hdp := decode_packMag_normal f hew hp _ _ hwf' hn'
  have hld : ldexpBits f (packMag f (oddPart m * 2 ^ (f.p - L)) ((L : Int) - f.p)) (e + tz m) = packMag f m e := by
    unfold ldexpBits
    rw [hdp.2.1, hdp.2.2]
    simp only [Bool.or_self, Bool.false_eq_true, if_false]
    rw [finParts_of_decode _ _ _ _ _ hdp.1]
    simp only
    have hmne : oddPart m * 2 ^ (f.p - L) ≠ 0 := by
      have := Nat.two_pow_pos (f.p - L)
      intro hz; rcases Nat.mul_eq_zero.mp hz with h' | h' <;> omega
    have hmm : oddPart m * 2 ^ (f.p - L) = m * 2 ^ (f.p - bitLen m) := by
      have h1 : m * 2 ^ (f.p - bitLen m) = oddPart m * 2 ^ tz m * 2 ^ (f.p - bitLen m) := by rw [oddPart_mul]
      rw [h1, Nat.mul_assoc, ← Nat.pow_add]
      congr 2; omega
    have hrd := roundDyadic_exact f hew hp false (oddPart m * 2 ^ (f.p - L)) ((L : Int) - f.p + (e + tz m)) m e hmne hwf
      (by
        by_cases hfull : bitLen m = f.p
        · left
          refine ⟨by omega, ?_⟩
          have : ((L : Int) - f.p + (e + tz m) - e).toNat = 0 := by omega
          rw [this, hmm, hfull]; simp
        · right
          refine ⟨by omega, ?_⟩
          have : (e - ((L : Int) - f.p + (e + tz m))).toNat = f.p - bitLen m := by omega
          rw [this, hmm])
    simpa using hrd
  rw [hld]
  have hpf := packMag_facts f hew hp m e hwf
  rw [hpf.1]
  simp only [Bool.false_eq_true, if_false]
  unfold sgnNat negBits
  cases s
  · simp
  · simp only [if_true]
    have : packMag f m e / f.signBit = 0 := Nat.div_eq_of_lt hpf.2.2
    rw [this]; simp; omega

theorem mpf2floatC_fzero (f : Fmt) (hew : 2 ≤ f.ew) (hp : 1 ≤ f.p) : mpf2floatC f fzero = 0 := by
  have hE3 := expMax_ge f hew
  have hF : fields f 0 = ⟨false, 0, 0⟩ := by unfold fields; simp
  have hd : decode f 0 = .fin false 0 f.emin := by
    have := decode_sub f 0 (by rw [hF]; simp; omega) (by rw [hF])
    rw [this, hF]
  have hnan : isNaNb f 0 = false := by unfold isNaNb; rw [hF]; simp
  have hinf : isInfb f 0 = false := by unfold isInfb; rw [hF]; simp; omega
  have hr : roundDyadic f false 0 0 = 0 := by unfold roundDyadic; simp
  have hl : ldexpBits f 0 0 = 0 := by
    unfold ldexpBits; rw [hnan, hinf]; simp
    rw [finParts_of_decode _ _ _ _ _ hd]; simp [roundDyadic]
  unfold mpf2floatC
  have hfin : fzero.isFinite = true := by decide
  have hn : normalize 0 0 0 f.p = fzero := by simp [normalize]
  have e1 : fzero.exp + fzero.bc = 0 := by decide
  have e2 : fzero.sign = 0 := rfl
  have e3 : fzero.man = 0 := rfl
  have e4 : fzero.exp = 0 := rfl
  simp only [hfin, if_true, e2, e3, e4, hn, e1, shrinkTo_le _ _ _ _ (Nat.zero_le _), hr, hl, hinf]
  have e5 : fzero.bc = 0 := rfl
  by_cases h1 : (0:Int) < subexp f
  · simp [h1, e5]
  · simp [e5]

end FAVerif.Conv
