/-
C04 — assembly: table hypotheses as one decidable check, the main soundness theorem in its general
form, `_is_one`, and the concrete witnesses (findings) on the model.
-/
import FAVerif.Lemmas.RewriterRules

set_option linter.unusedSectionVars false
set_option linter.unusedVariables false
set_option linter.unusedSimpArgs false

namespace FAVerif.Rewriter
open FAVerif.SignAbs FAVerif.FP

variable {K : Type} [Field K] [LinearOrder K] [IsStrictOrderedRing K]

/-! ## tables -/

/-- rows of `_constant_relop_any` that `_compare` can look up: numeric constant on the left
(`isinstance(value, number_types)` guards both lookups) -/
def numericRows (t : Table) : Table :=
  t.filter fun row => match row.1.1 with | .num _ => true | .name _ => false

/-- every row the rewriter can consult is judged sound -/
def TablesOK (T : Tables) : Bool :=
  tableSoundExcept T.cc [] && tableSoundExcept (numericRows T.ca) [] && tableSoundExcept T.aa []

/-- the tables with the listed rows of `_any_relop_any` removed -/
def Tables.without (T : Tables) (bad : List (Key × Key)) : Tables :=
  { cc := T.cc, ca := T.ca, aa := Table.erase T.aa bad }

theorem tableSound_mem {t : Table} (h : tableSoundExcept t [] = true) : ∀ row ∈ t, rowSound row = true := by
  intro row hrow
  simp only [tableSoundExcept, List.all_eq_true] at h
  simpa using h row hrow

theorem tablesOK_spec {T : Tables} (h : TablesOK T = true) :
    (∀ row ∈ T.cc, rowSound row = true) ∧
    (∀ row ∈ T.ca, (∃ n, row.1.1 = Key.num n) → rowSound row = true) ∧
    (∀ row ∈ T.aa, rowSound row = true) := by
  simp only [TablesOK, Bool.and_eq_true] at h
  refine ⟨tableSound_mem h.1.1, ?_, tableSound_mem h.2⟩
  intro row hrow ⟨n, hn⟩
  apply tableSound_mem h.1.2
  simp only [numericRows, List.mem_filter]
  exact ⟨hrow, by rw [hn]⟩

/-- soundness of the relational tables, lifted from the judge to all values: whenever a consulted
row has a non-`None` entry, the entry is the truth value of the relation on every pair of
extended values denoted by the row's keys -/
theorem tables_lifted (nc : NC K) {T : Tables} (h : TablesOK T = true) :
    ∀ (t : Table), (t = T.cc ∨ t = numericRows T.ca ∨ t = T.aa) →
    ∀ k1 k2 row, ((k1, k2), row) ∈ t → ∀ (r : Rel) (b : Bool), (row[r.index]?).join = some b →
    ∀ x y : EV K, InKey nc k1 x → InKey nc k2 y → r.holds x y = b := by
  intro t ht k1 k2 row hmem r b hb x y hx hy
  simp only [TablesOK, Bool.and_eq_true] at h
  have hs : rowSound ((k1, k2), row) = true := by
    rcases ht with rfl | rfl | rfl
    · exact tableSound_mem h.1.1 _ hmem
    · exact tableSound_mem h.1.2 _ hmem
    · exact tableSound_mem h.2 _ hmem
  exact rowSound_correct nc hs hb hx hy

/-! ## the main theorem, general form -/

/-- **Soundness of rewriting.**  For every interpretation `S` with the laws of `Sem.Laws`
(exact real arithmetic and regular floating point are instances), every assignment `env` of
representable values, every configuration `cfg` in strict mode — *any* operand order `cfg.ord`,
any tables judged sound, any fuel — if the pass returns `e'` then `e'` is defined wherever `e`
is and has the same value. -/
theorem rewrite_sound_general (S : Sem K) (L : S.Laws) (env : Env K) (henv : EnvOK S env) (cfg : Cfg)
    (hstrict : cfg.strict = true) (hT : TablesOK cfg.T = true)
    (nc : NC K)
    (hnc : S.named "smallest_subnormal" = some (.fin nc.a) ∧ S.named "smallest" = some (.fin nc.b) ∧
           S.named "eps" = some (.fin nc.c) ∧ S.named "largest" = some (.fin nc.d))
    (hnamed : ∀ t s b, cfg.work = some t → namedBits t s = some b → S.named s = S.ofExt (extOfBits t.fmt b))
    (hrep : ∀ (v : CVal) (q : Rat), repGuard cfg v = true → v.ext? = some (.fin q) → S.rnd (q : K) = (q : K))
    (hud : cfg.strictUD = true ∨ ∀ a : K, S.rnd a = a → S.up (S.down a) = a)
    (fuel : Nat) (e e' : Expr) (v : EV K)
    (h : rewriteDeep cfg fuel e = .ok e') (hv : eval S env e = some v) : eval S env e' = some v := by
  obtain ⟨h1, h2, h3⟩ := tablesOK_spec hT
  exact rewriteDeep_sound
    { L := L, henv := henv, strict := hstrict, rep := hrep, ud := hud, named := hnamed, nc := nc, hnc := hnc,
      tcc := h1, tca := h2, taa := h3 } fuel e e' h v hv

/-! ## `_is_one` -/

def OneFact (b : Bool) (v : EV K) : Prop :=
  match b with
  | true => v = .fin 1
  | false => v ≠ .fin 1

/-- the recursion of `_is_one` does not pass through `square` / `absolute` (for which the
implementation's answer is wrong: `(-1)^2 = |-1| = 1`) -/
def isOneSafe : Expr → Bool
  | .un .sqrt x => isOneSafe x
  | .un .square _ => false
  | .un .absolute _ => false
  | _ => true

theorem one_generic {S : Sem K} (L : S.Laws) (env : Env K) {e : Expr} {v : EV K} {b : Bool}
    (hv : eval S env e = some v)
    (h : (do if (← tr (isNonpos e)) then pure (some false) else pure none : M (Option Bool)) = .ok (some b)) :
    OneFact b v := by
  simp only [bind_eq_ok] at h
  obtain ⟨c, hc, h⟩ := h
  cases c <;> simp at h
  subst h
  have := isNonpos_sound L env hv (tr_ok_true hc)
  simp only [OneFact]
  intro hz; subst hz
  simp [SignFact, EV.le, EV.lt] at this

/-- **soundness of `_is_one`** in exact arithmetic, away from `square`/`absolute` -/
theorem isOne_sound_partial {S : Sem K} (L : S.Laws) (hex : ∀ z : K, S.rnd z = z) (env : Env K) :
    ∀ (e : Expr) (v : EV K) (b : Bool), isOneSafe e = true → eval S env e = some v →
      isOne e = .ok (some b) → OneFact b v := by
  intro e
  induction e with
  | sym n t => intro v b _ hv h; exact one_generic L env hv (by simpa [isOne] using h)
  | select c x y _ _ _ => intro v b _ hv h; exact one_generic L env hv (by simpa [isOne] using h)
  | bin k x y _ _ => intro v b _ hv h; exact one_generic L env hv (by simpa [isOne] using h)
  | const c l _ =>
    intro v b hsafe hv h
    clear hsafe
    simp only [isOne] at h
    simp only [eval] at hv
    split_ifs at h with hn
    · simp only [pure_eq_ok, Option.some.injEq] at h
      subst h
      cases h1 : c.eq1
      · -- value different from 1
        simp only [OneFact]
        intro hz; subst hz
        cases c <;> simp [CVal.isNumber] at hn
        case bool bb =>
          simp only [CVal.eq1] at h1; subst h1
          rw [const_bool L] at hv; simp [EV.ofBool] at hv
        case int n =>
          simp [Sem.const, CVal.ext?, Sem.ofExt] at hv
          obtain ⟨_, hv⟩ := arith_eq_some hv
          simp only [EV.fin.injEq, hex] at hv
          have : n = 1 := by exact_mod_cast hv.symm
          subst this; simp [CVal.eq1] at h1
        case flt t bits =>
          rw [const_of_ext (x := extOfBits t.fmt bits) (by simp [CVal.isReal]) rfl] at hv
          have he : CVal.eq1 (.flt t bits) = (extOfBits t.fmt bits == ExtQ.fin 1) := by simp [CVal.eq1, extEqQ]
          rw [he] at h1
          generalize extOfBits t.fmt bits = xx at hv h1
          cases xx <;> simp only [Sem.ofExt] at hv <;> try (cases hv)
          rename_i q
          obtain ⟨_, hv⟩ := arith_eq_some hv
          simp only [EV.fin.injEq, hex] at hv
          have : q = 1 := by exact_mod_cast hv.symm
          subst this; simp at h1
        case cplx t re im => simp [Sem.const, CVal.ext?] at hv
      · exact eq1_sound L hn h1 hv
    · cases c <;> simp at h
      rename_i s
      split_ifs at h with h1 h2 <;> simp at h
      subst h
      rcases named_ne_fin L h2 (by simpa using h1) (by simpa [Sem.const] using hv) with r | r | ⟨x, r, _, hne⟩ <;>
        subst r <;> simp [OneFact]
      exact hne
  | un k x ih =>
    intro v b hs hv h
    have hv' := hv
    simp only [eval, Option.bind_eq_bind, Option.bind_eq_some_iff] at hv'
    obtain ⟨a, ha, hva⟩ := hv'
    cases k
    case sqrt =>
      simp only [isOneSafe] at hs
      simp only [isOne, bind_eq_ok] at h
      obtain ⟨c, _, h⟩ := h
      cases c <;> simp at h
      have := ih a b hs ha h
      cases a <;> simp [Sem.un] at hva
      rename_i x'
      obtain ⟨hx0, hva⟩ := hva
      obtain ⟨hok, rfl⟩ := arith_eq_some hva
      cases b <;> simp only [OneFact, ne_eq, EV.fin.injEq, hex] at *
      · intro hz
        have h2 := L.sqrt_mul_self _ hx0
        rw [hz] at h2
        exact this (by linarith)
      · subst this
        have := L.sqrt_sq 1 zero_le_one
        simpa using this
    case square => simp [isOneSafe] at hs
    case absolute => simp [isOneSafe] at hs
    all_goals exact one_generic L env hv (by simpa [isOne] using h)

/-! ## witnesses on the model (findings; each is replayed on the real code by the harness) -/

def f32 : Ty := ⟨.float, some 32⟩
def f64 : Ty := ⟨.float, some 64⟩
def c64 : Ty := ⟨.complex, some 64⟩
def symA : Expr := .sym "a" f32
def symB : Expr := .sym "b" f32

/-- the two rows of `_any_relop_any` as they were before the `fix:` commit 6a4e7cd in /repo (literal data,
kept for the regression witnesses) -/
def badRows : Table :=
  [((.name "nonnegative", .name "nonpositive"), [some true, some true, some false, some false, some false, some true]),
   ((.name "nonpositive", .name "nonnegative"), [some false, some false, some true, some true, some false, some true])]

def witnessCfg : Cfg := { T := { cc := [], ca := [], aa := badRows }, ord := fun _ _ => some false }

/-- `-abs(a) < abs(b)` -/
def witnessExpr : Expr := .bin .lt (.un .negative (.un .absolute symA)) (.un .absolute symB)

theorem witness_rows_unsound : badRows.all (fun row => !rowSound row) = true := by decide

theorem witness_rewrites_to_true : rewriteDeep witnessCfg 8 witnessExpr = .ok (boolConst true) := by decide

/-- `upcast(downcast(x)) -> x` in the plain model -/
theorem witness_upcast_downcast :
    rewriteDeep witnessCfg 8 (.un .upcast (.un .downcast (.sym "x" f64))) = .ok (.sym "x" f64) := by decide

/-- ... although narrowing binary64 0.1 to binary32 and widening it again changes the value -/
theorem witness_roundtrip_lossy :
    convert binary32 binary64 (convert binary64 binary32 0x3fb999999999999a) ≠ 0x3fb999999999999a := by decide

/-- `z == 0` for complex `z` raises `AssertionError` -/
theorem witness_complex_raises :
    rewriteDeep witnessCfg 8 (.bin .eq (.sym "z" c64) (.const (.int 0) (.sym "z" c64))) = .error .assertion := by decide

/-- `upcast(x) < 0` for real `x` raises `NotImplementedError` (`is_complex` has no case for `upcast`) -/
theorem witness_upcast_compare_raises :
    rewriteDeep witnessCfg 8 (.bin .lt (.un .upcast symA) (.const (.int 0) symA)) = .error .notImpl := by decide

/-- `sqrt(-1.0)` on a Python-float typed constant raises `ValueError` (`math.sqrt`) -/
theorem witness_sqrt_raises :
    rewriteDeep witnessCfg 8 (.un .sqrt (.const (.flt .py 0xbff0000000000000) (.sym "x" ⟨.float, none⟩))) = .error .valueError := by
  decide +kernel

/-- `_is_one(square(-1))` answers `False` -/
theorem witness_isOne_square :
    isOne (.un .square (.const (.int (-1)) symA)) = .ok (some false) := by decide

end FAVerif.Rewriter
