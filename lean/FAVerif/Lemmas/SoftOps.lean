/-
Correctness of the softfloat operations against the abstract theory:
for finite operands and a finite (non-overflowing) result,
  value (FP.add f a b) = rne (value a + value b),   likewise sub and mul,
where `rne` is the round-to-nearest-even function over ℚ, which satisfies `IsRN`.
-/
import FAVerif.Lemmas.SoftPack

namespace FAVerif.SoftRound
open FAVerif.FP FAVerif.FPQ

/-- rational value of a finite triple -/
def valQ (s : Bool) (m : Nat) (e : Int) : ℚ := (if s then -1 else 1) * (m : ℚ) * 2 ^ e

lemma toRat_fin (s : Bool) (m : Nat) (e : Int) : (V.fin s m e).toRat? = some (valQ s m e) := by
  simp [V.toRat?, valQ, pow2_eq]

lemma decode_zeroBits (f : Fmt) (h : WF f) (s : Bool) : decode f (f.zeroBits s) = .fin s 0 f.emin := by
  have := fields_compose f h s 0 0 (by positivity) (by positivity)
  simp only [Nat.zero_mul, Nat.add_zero] at this
  unfold decode Fmt.zeroBits
  rw [this]
  have hx1 : (0 : ℕ) ≠ f.expMax := by
    have : 2 ^ 1 ≤ 2 ^ f.ew := Nat.pow_le_pow_right (by norm_num) (by have := h.hew; omega)
    simp only [Fmt.expMax]; omega
  simp [hx1]

lemma isFinite_packFin_overflow (f : Fmt) (h : WF f) (s : Bool) (q : Nat) (et : Int)
    (hq : ¬ q < 2 ^ f.fracBits) (hov : et - f.emin + 1 ≥ (f.expMax : Int)) :
    isFiniteBits f (packFin f s q et) = false := by
  unfold packFin
  simp only [hq, if_false, hov, if_true]
  have hxm : f.expMax < 2 ^ f.ew := by
    simp only [Fmt.expMax]; have : 0 < 2 ^ f.ew := by positivity
    omega
  have := fields_compose f h s f.expMax 0 hxm (by positivity)
  simp only [Nat.add_zero] at this
  unfold isFiniteBits Fmt.infBits
  rw [this]
  simp

/-- **value of `roundFin`**: when it does not overflow, it decodes to sign `s` and magnitude `rne (m·2^e)`. -/
theorem roundFin_value (f : Fmt) (h : WF f) (s : Bool) (m : Nat) (hm : 0 < m) (e : Int)
    (hfin : isFiniteBits f (roundFin f s m e false) = true) :
    ∃ q et, decode f (roundFin f s m e false) = .fin s q et ∧
      (q : ℚ) * 2 ^ et = rne (qf f h.hp) ((m : ℚ) * 2 ^ e) := by
  have hm0 : m ≠ 0 := by omega
  obtain ⟨hc1, hc2, hc3⟩ := roundCore_canon f h m hm e
  have hval := roundCore_eq_rne f h.hp m hm e
  set r := roundCore f m e false with hr
  have hp := h.hp
  have hfb : f.fracBits + 1 = f.p := by simp [Fmt.fracBits]; omega
  have hpp : (2 : ℕ) ^ f.p = 2 * 2 ^ f.fracBits := by rw [← hfb, pow_succ]; ring
  unfold roundFin at hfin ⊢
  simp only [hm0, if_false, ← hr] at hfin ⊢
  by_cases htop : r.1 = 2 ^ f.p
  · simp only [htop, if_true] at hfin ⊢
    have hnsub : ¬ (2 ^ f.fracBits < 2 ^ f.fracBits) := lt_irrefl _
    have hexp : r.2 + 1 - f.emin + 1 < (f.expMax : Int) := by
      by_contra hc
      push Not at hc
      rw [isFinite_packFin_overflow f h s _ _ hnsub hc] at hfin
      exact absurd hfin (by decide)
    have hcan : Canon f (2 ^ f.fracBits) (r.2 + 1) :=
      ⟨by rw [hpp]; have : 0 < 2 ^ f.fracBits := by positivity
          omega, by omega, fun hh => absurd hh hnsub, hexp⟩
    refine ⟨_, _, decode_packFin f h s _ _ hcan, ?_⟩
    have hppq : (2 : ℚ) ^ f.p = 2 * 2 ^ f.fracBits := by exact_mod_cast hpp
    rw [← hval, htop]
    push_cast
    rw [zpow_add₀ (by norm_num : (2 : ℚ) ≠ 0), hppq]; ring
  · simp only [htop, if_false] at hfin ⊢
    have hlt : r.1 < 2 ^ f.p := lt_of_le_of_ne hc1 htop
    have hexp : r.2 - f.emin + 1 < (f.expMax : Int) ∨ r.1 < 2 ^ f.fracBits := by
      by_cases hsub : r.1 < 2 ^ f.fracBits
      · exact Or.inr hsub
      · left
        by_contra hc
        push Not at hc
        rw [isFinite_packFin_overflow f h s _ _ hsub hc] at hfin
        exact absurd hfin (by decide)
    have hx2 : (2 : ℤ) ≤ f.expMax := by
      have : 2 ^ 1 ≤ 2 ^ f.ew := Nat.pow_le_pow_right (by norm_num) (by have := h.hew; omega)
      have h2 : 2 ^ f.ew - 1 = f.expMax := rfl
      have : 2 ^ 2 ≤ 2 ^ f.ew := Nat.pow_le_pow_right (by norm_num) h.hew
      omega
    have hcan : Canon f r.1 r.2 := by
      refine ⟨hlt, hc2, hc3, ?_⟩
      rcases hexp with h1 | h1
      · exact h1
      · rw [hc3 h1]; omega
    refine ⟨_, _, decode_packFin f h s _ _ hcan, ?_⟩
    rw [← hval]; push_cast; ring

/-- value of a pattern, when finite -/
def toQ (f : Fmt) (b : Nat) : Option ℚ := (decode f b).toRat?

lemma valQ_neg (s : Bool) (m : Nat) (e : Int) : valQ (!s) m e = -valQ s m e := by
  cases s <;> simp [valQ]

lemma sInt_val (s : Bool) (m : Nat) : ((sInt s m : ℤ) : ℚ) = (if s then -1 else 1) * (m : ℚ) := by
  cases s <;> simp [sInt]

/-- signed version of `roundFin_value`: rounding the exact signed dyadic `M·2^e` (M ≠ 0) -/
theorem roundFin_signed (f : Fmt) (h : WF f) (M : ℤ) (hM : M ≠ 0) (e : Int)
    (hfin : isFiniteBits f (roundFin f (decide (M < 0)) M.natAbs e false) = true) :
    toQ f (roundFin f (decide (M < 0)) M.natAbs e false) = some (rne (qf f h.hp) ((M : ℚ) * 2 ^ e)) := by
  have hm : 0 < M.natAbs := Int.natAbs_pos.2 hM
  obtain ⟨q, et, hdec, hval⟩ := roundFin_value f h (decide (M < 0)) M.natAbs hm e hfin
  unfold toQ
  rw [hdec, toRat_fin]
  congr 1
  by_cases hneg : M < 0
  · have hMabs : ((M.natAbs : ℕ) : ℚ) = -(M : ℚ) := by
      rw [Nat.cast_natAbs, abs_of_neg hneg, Int.cast_neg]
    simp only [valQ, hneg, decide_true, if_true]
    rw [show (-1 : ℚ) * (q : ℚ) * 2 ^ et = -((q : ℚ) * 2 ^ et) by ring, hval, hMabs,
      show -(M : ℚ) * 2 ^ e = -((M : ℚ) * 2 ^ e) by ring, rne_neg, neg_neg]
  · have hMabs : ((M.natAbs : ℕ) : ℚ) = (M : ℚ) := by
      rw [Nat.cast_natAbs, abs_of_nonneg (not_lt.1 hneg)]
    simp only [valQ, hneg, decide_false, Bool.false_eq_true, if_false, one_mul]
    rw [hval, hMabs]

/-- **addition is correctly rounded**: finite operands, finite result ⇒ value = rne (x + y). -/
theorem add_correct (f : Fmt) (h : WF f) (a b : Nat) (s t : Bool) (m n : Nat) (e e' : Int)
    (ha : decode f a = .fin s m e) (hb : decode f b = .fin t n e')
    (hfin : isFiniteBits f (FP.add f a b) = true) :
    toQ f (FP.add f a b) = some (rne (qf f h.hp) (valQ s m e + valQ t n e')) := by
  set e0 := min e e' with he0
  set M : Int := sInt s (m * 2 ^ (e - e0).toNat) + sInt t (n * 2 ^ (e' - e0).toNat) with hMdef
  have hsum : valQ s m e + valQ t n e' = (M : ℚ) * 2 ^ e0 := by
    have h1 : e = e0 + ((e - e0).toNat : ℤ) := by have := min_le_left e e'; omega
    have h2 : e' = e0 + ((e' - e0).toNat : ℤ) := by have := min_le_right e e'; omega
    rw [hMdef]; push_cast
    rw [sInt_val, sInt_val]
    simp only [valQ]
    conv_lhs => rw [h1, h2]
    rw [zpow_add₀ (by norm_num : (2 : ℚ) ≠ 0), zpow_add₀ (by norm_num : (2 : ℚ) ≠ 0), zpow_natCast, zpow_natCast]
    push_cast; ring
  have hadd : FP.add f a b = if M = 0 then f.zeroBits (s && t) else roundFin f (decide (M < 0)) M.natAbs e0 false := by
    simp only [FP.add, ha, hb, ← he0, ← hMdef]
  rw [hadd] at hfin ⊢
  by_cases hM : M = 0
  · simp only [hM, if_true]
    unfold toQ
    rw [decode_zeroBits f h, toRat_fin, hsum, hM]
    simp [valQ, rne_zero]
  · simp only [hM, if_false] at hfin ⊢
    rw [roundFin_signed f h M hM e0 hfin, hsum]

lemma fields_neg (f : Fmt) (h : WF f) (b : Nat) :
    fields f (FP.neg f b) = ⟨!(fields f b).sign, (fields f b).e, (fields f b).m⟩ := by
  have hsb := signBit_eq f h
  set S := f.signBit with hS
  set B := 2 ^ f.fracBits with hB
  set X := 2 ^ f.ew with hX
  have hSpos : 0 < S := by rw [hsb]; positivity
  have hBpos : 0 < B := by positivity
  have hXpos : 0 < X := by positivity
  unfold fields FP.neg
  simp only [← hS, ← hB, ← hX]
  by_cases hodd : b / S % 2 = 1
  · simp only [hodd, if_true]
    have hd1 : 1 ≤ b / S := by
      rcases Nat.eq_zero_or_pos (b / S) with h0 | h0
      · rw [h0] at hodd; exact absurd hodd (by decide)
      · exact h0
    have hge : S ≤ b := by
      have := Nat.div_mul_le_self b S
      calc S = 1 * S := (Nat.one_mul S).symm
        _ ≤ b / S * S := Nat.mul_le_mul_right S hd1
        _ ≤ b := this
    obtain ⟨c, hc⟩ : ∃ c, b = c + S := ⟨b - S, by omega⟩
    have e1 : b / S = (b - S) / S + 1 := by
      conv_lhs => rw [hc, Nat.add_div_right _ hSpos]
      rw [hc, Nat.add_sub_cancel]
    have e2 : b / B = (b - S) / B + X := by
      conv_lhs => rw [hc, hsb, Nat.add_mul_div_right _ _ hBpos]
      rw [hc, Nat.add_sub_cancel]
    have e3 : b % B = (b - S) % B := by
      conv_lhs => rw [hc, hsb, Nat.add_mul_mod_self_right]
      rw [hc, Nat.add_sub_cancel]
    have hpar : (b - S) / S % 2 = 0 := by rw [e1] at hodd; omega
    simp [e2, e3, hodd, hpar, Nat.add_mod_right]
  · simp only [hodd, if_false]
    have e1 : (b + S) / S = b / S + 1 := Nat.add_div_right _ hSpos
    have e2 : (b + S) / B = b / B + X := by rw [hsb, Nat.add_mul_div_right _ _ hBpos]
    have e3 : (b + S) % B = b % B := by rw [hsb, Nat.add_mul_mod_self_right]
    have hpar0 : b / S % 2 = 0 := by omega
    have hpar : (b / S + 1) % 2 = 1 := by omega
    simp [e1, e2, e3, hpar0, hpar, Nat.add_mod_right]

lemma decode_neg (f : Fmt) (h : WF f) (b : Nat) (t : Bool) (n : Nat) (e' : Int) (hb : decode f b = .fin t n e') :
    decode f (FP.neg f b) = .fin (!t) n e' := by
  have hfn := fields_neg f h b
  unfold decode at hb ⊢
  rw [hfn]
  simp only at hb ⊢
  split_ifs at hb ⊢ <;> simp_all

/-- **subtraction is correctly rounded** -/
theorem sub_correct (f : Fmt) (h : WF f) (a b : Nat) (s t : Bool) (m n : Nat) (e e' : Int)
    (ha : decode f a = .fin s m e) (hb : decode f b = .fin t n e')
    (hfin : isFiniteBits f (FP.sub f a b) = true) :
    toQ f (FP.sub f a b) = some (rne (qf f h.hp) (valQ s m e - valQ t n e')) := by
  have hnan : isNaNBits f b = false := by simp [isNaNBits, hb, V.isNaN]
  have hsub : FP.sub f a b = FP.add f a (FP.neg f b) := by simp [FP.sub, hnan]
  rw [hsub] at hfin ⊢
  have hnb := decode_neg f h b t n e' hb
  rw [add_correct f h a (FP.neg f b) s (!t) m n e e' ha hnb hfin, valQ_neg, sub_eq_add_neg]

/-- **multiplication is correctly rounded** -/
theorem mul_correct (f : Fmt) (h : WF f) (a b : Nat) (s t : Bool) (m n : Nat) (e e' : Int)
    (ha : decode f a = .fin s m e) (hb : decode f b = .fin t n e')
    (hfin : isFiniteBits f (FP.mul f a b) = true) :
    toQ f (FP.mul f a b) = some (rne (qf f h.hp) (valQ s m e * valQ t n e')) := by
  have hmul : FP.mul f a b = roundFin f (s != t) (m * n) (e + e') false := by
    simp only [FP.mul, ha, hb]
  rw [hmul] at hfin ⊢
  have hprod : valQ s m e * valQ t n e' = (if (s != t) then -1 else 1) * ((m * n : ℕ) : ℚ) * 2 ^ (e + e') := by
    rw [zpow_add₀ (by norm_num : (2 : ℚ) ≠ 0)]
    cases s <;> cases t <;> simp [valQ] <;> ring
  by_cases hz : m * n = 0
  · -- exact zero product
    rw [hprod, hz]
    simp only [roundFin, hz, if_true]
    unfold toQ
    rw [decode_zeroBits f h, toRat_fin]
    simp [valQ, rne_zero]
  · have hpos : 0 < m * n := Nat.pos_of_ne_zero hz
    obtain ⟨q, et, hdec, hval⟩ := roundFin_value f h (s != t) (m * n) hpos (e + e') hfin
    unfold toQ
    rw [hdec, toRat_fin, hprod]
    congr 1
    cases hst : (s != t)
    · simp only [valQ, Bool.false_eq_true, if_false, one_mul]
      rw [hval]
    · simp only [valQ, if_true]
      rw [show (-1 : ℚ) * (q : ℚ) * 2 ^ et = -((q : ℚ) * 2 ^ et) by ring, hval,
        show (-1 : ℚ) * ((m * n : ℕ) : ℚ) * 2 ^ (e + e') = -(((m * n : ℕ) : ℚ) * 2 ^ (e + e')) by ring, rne_neg]

end FAVerif.SoftRound
