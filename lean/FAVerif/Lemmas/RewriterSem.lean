/-
C04 — semantics of rewriter expressions, generic in a linearly ordered field `K` and in a
rounding structure `Sem K`:

* values are extended elements of `K` (`EV K`: -inf, a finite value, +inf); booleans are the
  numbers 0 and 1 (Python's `True == 1`);
* every arithmetic node computes `rnd (exact result)` and is *defined* only when `ok (exact
  result)` — `rnd = id`, `ok = true` is exact real arithmetic; a monotone, odd, idempotent `rnd`
  with `ok z → rnd z = 0 → z = 0` (no underflow to zero) is floating point in one working format
  away from NaN/overflow/underflow, read up to the sign of zero;
* arithmetic on an infinite operand, division by zero, sqrt of a negative number, a NaN constant,
  complex kinds: undefined;
* `sqrt` and all opaque functions are parameters with the few laws the rules need.
-/
import Mathlib.Tactic
import Mathlib.Algebra.Order.Field.Basic
import Mathlib.Data.Rat.Cast.Order
import FAVerif.Models.Rewriter

set_option linter.unusedSectionVars false
set_option linter.unusedVariables false

namespace FAVerif.Rewriter

/-! ## `Except` plumbing -/

theorem bind_eq_ok {α β : Type} {m : M α} {f : α → M β} {r : β} :
    (m >>= f) = .ok r ↔ ∃ a, m = .ok a ∧ f a = .ok r := by
  cases m with
  | error e => simp [bind, Except.bind]
  | ok a => simp [bind, Except.bind]

theorem map_eq_ok {α β : Type} {m : M α} {f : α → β} {r : β} :
    (f <$> m) = .ok r ↔ ∃ a, m = .ok a ∧ f a = r := by
  cases m with
  | error e => simp [Functor.map, Except.map]
  | ok a => simp [Functor.map, Except.map]

@[simp] theorem pure_eq_ok {α : Type} {a r : α} : (pure a : M α) = .ok r ↔ a = r := by
  simp [pure, Except.pure]

@[simp] theorem throw_ne_ok {α : Type} {e : Err} {r : α} : (throw e : M α) = .ok r ↔ False := by
  simp [throw, throwThe, MonadExceptOf.throw]

theorem firstM_ok {α : Type} {l : List (M Bool × α)} {r : α} (h : firstM l = .ok (some r)) :
    ∃ p ∈ l, p.1 = .ok true ∧ p.2 = r := by
  induction l with
  | nil => simp [firstM] at h
  | cons p rest ih =>
    obtain ⟨c, v⟩ := p
    simp only [firstM, bind_eq_ok] at h
    obtain ⟨b, hb, h⟩ := h
    cases b with
    | true =>
      simp at h
      exact ⟨(c, v), by simp, hb, h⟩
    | false =>
      simp at h
      obtain ⟨p, hp, h1, h2⟩ := ih h
      exact ⟨p, by simp [hp], h1, h2⟩

theorem firstSome_ok {α : Type} {l : List (M (Option α))} {r : α} (h : firstSome l = .ok (some r)) :
    ∃ m ∈ l, m = .ok (some r) := by
  induction l with
  | nil => simp [firstSome] at h
  | cons m rest ih =>
    simp only [firstSome, bind_eq_ok] at h
    obtain ⟨o, ho, h⟩ := h
    cases o with
    | some a =>
      simp at h
      exact ⟨m, by simp, by rw [ho, h]⟩
    | none =>
      simp at h
      obtain ⟨m', hm', h1⟩ := ih h
      exact ⟨m', by simp [hm'], h1⟩

theorem andT_ok_true {a b : M (Option Bool)} {p p' : Option Bool → Bool} (h : andT a p b p' = .ok true) :
    ∃ x y, a = .ok x ∧ p x = true ∧ b = .ok y ∧ p' y = true := by
  simp only [andT, bind_eq_ok] at h
  obtain ⟨x, hx, h⟩ := h
  by_cases hp : p x = true
  · simp only [hp, if_true, bind_eq_ok, pure_eq_ok] at h
    obtain ⟨y, hy, h⟩ := h
    exact ⟨x, y, hx, hp, hy, h⟩
  · simp [hp] at h

theorem tr_ok_true {m : M (Option Bool)} (h : tr m = .ok true) : m = .ok (some true) := by
  simp only [tr, bind_eq_ok, pure_eq_ok] at h
  obtain ⟨o, ho, h⟩ := h
  cases o with
  | none => simp [truthy] at h
  | some b => cases b <;> simp_all [truthy]

theorem truthy_iff {o : Option Bool} : truthy o = true ↔ o = some true := by
  cases o with
  | none => simp [truthy]
  | some b => cases b <;> simp [truthy]

theorem isF_iff {o : Option Bool} : isF o = true ↔ o = some false := by
  cases o with
  | none => simp [isF]
  | some b => cases b <;> simp [isF]

/-! ## Extended values -/

inductive EV (K : Type) where
  | ninf | fin (x : K) | pinf

variable {K : Type} [Field K] [LinearOrder K] [IsStrictOrderedRing K]

namespace EV

instance : DecidableEq (EV K) := fun a b =>
  match a, b with
  | .ninf, .ninf => isTrue rfl
  | .pinf, .pinf => isTrue rfl
  | .fin x, .fin y => if h : x = y then isTrue (by rw [h]) else isFalse (by intro h'; cases h'; exact h rfl)
  | .ninf, .fin _ => isFalse (by intro h; cases h)
  | .ninf, .pinf => isFalse (by intro h; cases h)
  | .fin _, .ninf => isFalse (by intro h; cases h)
  | .fin _, .pinf => isFalse (by intro h; cases h)
  | .pinf, .ninf => isFalse (by intro h; cases h)
  | .pinf, .fin _ => isFalse (by intro h; cases h)

def lt : EV K → EV K → Prop
  | .ninf, .ninf => False
  | .ninf, _ => True
  | .fin _, .ninf => False
  | .fin a, .fin b => a < b
  | .fin _, .pinf => True
  | .pinf, _ => False

def le (x y : EV K) : Prop := ¬ lt y x

instance : DecidableRel (lt : EV K → EV K → Prop) := fun a b => by
  cases a <;> cases b <;> simp only [lt] <;> infer_instance

instance : DecidableRel (le : EV K → EV K → Prop) := fun a b => by
  unfold le; infer_instance

def ofBool (b : Bool) : EV K := .fin (if b then 1 else 0)

def toBool? : EV K → Option Bool
  | .fin x => if x = 0 then some false else if x = 1 then some true else none
  | _ => none

@[simp] theorem toBool_ofBool (b : Bool) : toBool? (ofBool b : EV K) = some b := by
  cases b <;> simp [ofBool, toBool?]

theorem toBool_eq {v : EV K} {b : Bool} (h : toBool? v = some b) : v = ofBool b := by
  cases v with
  | fin x =>
    simp only [toBool?] at h
    split_ifs at h with h0 h1
    · cases h; simp [ofBool, h0]
    · cases h; simp [ofBool, h1]
  | ninf => simp [toBool?] at h
  | pinf => simp [toBool?] at h

def neg : EV K → EV K
  | .ninf => .pinf | .fin x => .fin (-x) | .pinf => .ninf

def abs : EV K → EV K
  | .fin x => .fin |x| | _ => .pinf

def min (a b : EV K) : EV K := if lt b a then b else a
def max (a b : EV K) : EV K := if lt a b then b else a

/-- numpy.sign -/
def sign : EV K → EV K
  | .ninf => .fin (-1)
  | .fin x => .fin (if x = 0 then 0 else if 0 < x then 1 else -1)
  | .pinf => .fin 1

def zero : EV K := .fin 0

@[simp] theorem lt_fin (a b : K) : lt (.fin a) (.fin b) ↔ a < b := Iff.rfl
@[simp] theorem le_fin (a b : K) : le (.fin a) (.fin b) ↔ a ≤ b := by simp [le]
@[simp] theorem lt_irrefl' (a : EV K) : ¬ lt a a := by cases a <;> simp [lt]
@[simp] theorem le_refl' (a : EV K) : le a a := by simp [le]

theorem lt_trichotomy' (a b : EV K) : lt a b ∨ a = b ∨ lt b a := by
  cases a <;> cases b <;> simp [lt]
  rename_i x y
  rcases lt_trichotomy x y with h | h | h <;> simp [h]

theorem lt_asymm' {a b : EV K} (h : lt a b) : ¬ lt b a := by
  cases a <;> cases b <;> simp_all [lt]
  exact le_of_lt h

theorem le_iff_lt_or_eq' {a b : EV K} : le a b ↔ lt a b ∨ a = b := by
  unfold le
  rcases lt_trichotomy' a b with h | h | h
  · simp [h, lt_asymm' h]
  · simp [h]
  · simp only [h, not_true_eq_false, false_iff, not_or]
    exact ⟨lt_asymm' h, by rintro rfl; exact lt_irrefl' _ h⟩

end EV

/-- the six relational operators on extended values -/
def Rel.holds : Rel → EV K → EV K → Bool
  | .ge, a, b => decide (EV.le b a)
  | .gt, a, b => decide (EV.lt b a)
  | .le, a, b => decide (EV.le a b)
  | .lt, a, b => decide (EV.lt a b)
  | .eq, a, b => decide (a = b)
  | .ne, a, b => !decide (a = b)

/-! ## Interpretation parameters -/

structure Sem (K : Type) where
  rnd : K → K
  ok : K → Bool
  sqrt : K → K
  up : K → K
  down : K → K
  fn1 : String → K → Option K
  fn2 : String → K → K → Option K
  named : String → Option (EV K)

def K1.name : K1 → String
  | .negative => "negative" | .positive => "positive" | .absolute => "absolute" | .sqrt => "sqrt"
  | .square => "square" | .sign => "sign" | .logical_not => "logical_not" | .upcast => "upcast"
  | .downcast => "downcast" | .conjugate => "conjugate" | .real => "real" | .imag => "imag"
  | .log => "log" | .log10 => "log10" | .log2 => "log2" | .log1p => "log1p" | .other n => n

structure Sem.Laws (S : Sem K) : Prop where
  mono : ∀ a b, a ≤ b → S.rnd a ≤ S.rnd b
  idem : ∀ a, S.rnd (S.rnd a) = S.rnd a
  odd : ∀ a, S.rnd (-a) = - S.rnd a
  rnd_one : S.rnd 1 = 1
  ok_zero : S.ok 0 = true
  ok_one : S.ok 1 = true
  ok_neg : ∀ a, S.ok (-a) = S.ok a
  nz : ∀ z, S.ok z = true → S.rnd z = 0 → z = 0
  sqrt_nonneg : ∀ a, 0 ≤ a → 0 ≤ S.sqrt a
  sqrt_pos : ∀ a, 0 < a → 0 < S.sqrt a
  sqrt_sq : ∀ r, 0 ≤ r → S.sqrt (r * r) = r
  sqrt_mul_self : ∀ a, 0 ≤ a → S.sqrt a * S.sqrt a = a
  fn1_rep : ∀ n a b, S.fn1 n a = some b → S.rnd b = b
  fn2_rep : ∀ n a b c, S.fn2 n a b = some c → S.rnd c = c
  log_one : S.fn1 "log" 1 = some 0 ∧ S.fn1 "log2" 1 = some 0 ∧ S.fn1 "log10" 1 = some 0
  log1p_zero : S.fn1 "log1p" 0 = some 0
  up_rep : ∀ a, S.rnd a = a → S.rnd (S.up a) = S.up a
  down_rep : ∀ a, S.rnd (S.down a) = S.down a
  down_up : ∀ a, S.rnd a = a → S.down (S.up a) = a
  named_posinf : S.named "posinf" = some .pinf
  named_neginf : S.named "neginf" = some .ninf
  named_nan : S.named "nan" = none ∧ S.named "undefined" = none
  named_unknown : ∀ s, namedKnown s = false → S.named s = none
  /-- the finite named constants are positive, different from 1, representable and ordered -/
  named_fin : ∀ s, namedKnown s = true → s ≠ "posinf" → s ≠ "neginf" → s ≠ "nan" → s ≠ "undefined" →
      ∃ x, S.named s = some (.fin x) ∧ 0 < x ∧ x ≠ 1 ∧ S.rnd x = x

variable (S : Sem K)

/-- result of an arithmetic node with exact value `z` -/
def Sem.arith (z : K) : Option (EV K) := if S.ok z then some (.fin (S.rnd z)) else none

def extK : ExtQ → Option (EV K)
  | .nan => none
  | .ninf => some .ninf
  | .fin q => some (.fin (q : K))
  | .pinf => some .pinf

/-- value of a numeric constant with extended rational value `x`: brought to the working format -/
def Sem.ofExt (x : ExtQ) : Option (EV K) :=
  match x with
  | .fin q => S.arith (q : K)
  | .pinf => some .pinf
  | .ninf => some .ninf
  | .nan => none

/-- value of a constant: named constants by `S.named`; numbers are brought to the working
format (`rnd`); NaN and complex constants are undefined -/
def Sem.const (v : CVal) : Option (EV K) :=
  match v with
  | .name s => S.named s
  | _ =>
    match v.ext? with
    | some x => S.ofExt x
    | none => none

def Sem.un (k : K1) (a : EV K) : Option (EV K) :=
  match k with
  | .negative => some a.neg
  | .positive => some a
  | .absolute => some a.abs
  | .sqrt => match a with
    | .fin x => if 0 ≤ x then S.arith (S.sqrt x) else none
    | _ => none
  | .square => match a with
    | .fin x => S.arith (x * x)
    | _ => none
  | .sign => some a.sign
  | .logical_not => (a.toBool?).map fun b => EV.ofBool (!b)
  | .upcast => match a with
    | .fin x => some (.fin (S.up x))
    | v => some v
  | .downcast => match a with
    | .fin x => some (.fin (S.down x))
    | v => some v
  | .conjugate | .real | .imag => none
  | .log | .log10 | .log2 | .log1p | .other _ => match a with
    | .fin x => (S.fn1 k.name x).map .fin
    | _ => none

def boolOp (f : Bool → Bool → Bool) (a b : EV K) : Option (EV K) := do
  let x ← a.toBool?
  let y ← b.toBool?
  pure (EV.ofBool (f x y))

def Sem.bin (k : K2) (a b : EV K) : Option (EV K) :=
  match k with
  | .add => match a, b with
    | .fin x, .fin y => S.arith (x + y)
    | _, _ => none
  | .subtract => match a, b with
    | .fin x, .fin y => S.arith (x - y)
    | _, _ => none
  | .multiply => match a, b with
    | .fin x, .fin y => S.arith (x * y)
    | _, _ => none
  | .divide => match a, b with
    | .fin x, .fin y => if y = 0 then none else S.arith (x / y)
    | _, _ => none
  | .minimum => some (EV.min a b)
  | .maximum => some (EV.max a b)
  | .logical_and => boolOp (· && ·) a b
  | .logical_or => boolOp (· || ·) a b
  | .logical_xor => boolOp (· != ·) a b
  | .lt => some (EV.ofBool (Rel.lt.holds a b))
  | .le => some (EV.ofBool (Rel.le.holds a b))
  | .gt => some (EV.ofBool (Rel.gt.holds a b))
  | .ge => some (EV.ofBool (Rel.ge.holds a b))
  | .eq => some (EV.ofBool (Rel.eq.holds a b))
  | .ne => some (EV.ofBool (Rel.ne.holds a b))
  | .complex => none
  | .other n => match a, b with
    | .fin x, .fin y => (S.fn2 n x y).map .fin
    | _, _ => none

abbrev Env (K : Type) := String → Ty → Option (EV K)

/-- strict evaluation: `none` = undefined -/
def eval (env : Env K) : Expr → Option (EV K)
  | .sym n t => env n t
  | .const v _ => S.const v
  | .un k x => do
    let a ← eval env x
    S.un k a
  | .bin k x y => do
    let a ← eval env x
    let b ← eval env y
    S.bin k a b
  | .select c x y => do
    let vc ← eval env c
    let a ← eval env x
    let b ← eval env y
    let cb ← vc.toBool?
    pure (if cb then a else b)

/-- the assignment gives representable values -/
def EnvOK (env : Env K) : Prop := ∀ n t a, env n t = some (.fin a) → S.rnd a = a

variable {S}

theorem Sem.Laws.rnd_zero (L : S.Laws) : S.rnd 0 = 0 := by
  have h := L.odd 0
  simp only [neg_zero] at h
  linarith

theorem Sem.Laws.rnd_neg_one (L : S.Laws) : S.rnd (-1) = -1 := by
  rw [L.odd, L.rnd_one]

theorem Sem.Laws.rnd_nonneg (L : S.Laws) {z : K} (h : 0 ≤ z) : 0 ≤ S.rnd z := by
  have := L.mono 0 z h
  rwa [L.rnd_zero] at this

theorem Sem.Laws.rnd_nonpos (L : S.Laws) {z : K} (h : z ≤ 0) : S.rnd z ≤ 0 := by
  have := L.mono z 0 h
  rwa [L.rnd_zero] at this

theorem Sem.Laws.rnd_pos (L : S.Laws) {z : K} (hok : S.ok z = true) (h : 0 < z) : 0 < S.rnd z := by
  rcases lt_or_eq_of_le (L.rnd_nonneg (le_of_lt h)) with h1 | h1
  · exact h1
  · have := L.nz z hok h1.symm
    linarith

theorem Sem.Laws.rnd_neg (L : S.Laws) {z : K} (hok : S.ok z = true) (h : z < 0) : S.rnd z < 0 := by
  rcases lt_or_eq_of_le (L.rnd_nonpos (le_of_lt h)) with h1 | h1
  · exact h1
  · have := L.nz z hok h1
    linarith

theorem Sem.Laws.rnd_abs (L : S.Laws) (z : K) : S.rnd |z| = |S.rnd z| := by
  rcases le_total 0 z with h | h
  · rw [abs_of_nonneg h, abs_of_nonneg (L.rnd_nonneg h)]
  · rw [abs_of_nonpos h, abs_of_nonpos (L.rnd_nonpos h), L.odd]

theorem arith_eq_some {z : K} {v : EV K} (h : S.arith z = some v) : S.ok z = true ∧ v = .fin (S.rnd z) := by
  unfold Sem.arith at h
  split_ifs at h with hok
  · cases h; exact ⟨hok, rfl⟩

theorem arith_of_ok {z : K} (h : S.ok z = true) : S.arith z = some (.fin (S.rnd z)) := by
  simp [Sem.arith, h]

/-- every finite value produced by evaluation is representable -/
def Rep (S : Sem K) : EV K → Prop
  | .fin x => S.rnd x = x
  | _ => True

theorem rep_ofBool (L : S.Laws) (b : Bool) : Rep S (EV.ofBool b) := by
  cases b <;> simp [Rep, EV.ofBool, L.rnd_zero, L.rnd_one]

theorem rep_arith (L : S.Laws) {z : K} {v : EV K} (h : S.arith z = some v) : Rep S v := by
  obtain ⟨_, rfl⟩ := arith_eq_some h
  exact L.idem z

theorem const_rep (L : S.Laws) {v : CVal} {a : EV K} (h : S.const v = some a) : Rep S a := by
  unfold Sem.const at h
  split at h
  · rename_i s
    by_cases hk : namedKnown s = true
    · by_cases h1 : s = "posinf"
      · subst h1; rw [L.named_posinf] at h; cases h; trivial
      by_cases h2 : s = "neginf"
      · subst h2; rw [L.named_neginf] at h; cases h; trivial
      by_cases h3 : s = "nan"
      · subst h3; rw [L.named_nan.1] at h; cases h
      by_cases h4 : s = "undefined"
      · subst h4; rw [L.named_nan.2] at h; cases h
      obtain ⟨x, hx, _, _, hr⟩ := L.named_fin s hk h1 h2 h3 h4
      rw [hx] at h; cases h; exact hr
    · rw [L.named_unknown s (by simpa using hk)] at h; cases h
  · split at h
    · rename_i x _
      cases x <;> simp only [Sem.ofExt] at h
      · cases h
      · cases h; trivial
      · exact rep_arith L h
      · cases h; trivial
    · cases h

theorem un_rep (L : S.Laws) {k : K1} {a v : EV K} (ha : Rep S a) (h : S.un k a = some v) : Rep S v := by
  cases k <;> simp only [Sem.un] at h
  case negative => cases h; cases a <;> simp_all [EV.neg, Rep, L.odd]
  case positive => cases h; exact ha
  case absolute =>
    cases h; cases a <;> simp_all [EV.abs, Rep]
    rename_i x; rw [L.rnd_abs, ha]
  case sqrt =>
    cases a <;> simp at h
    exact rep_arith L h.2
  case square =>
    cases a <;> simp at h
    exact rep_arith L h
  case sign =>
    cases h
    cases a <;> simp only [EV.sign, Rep]
    · exact L.rnd_neg_one
    · split_ifs <;> simp [L.rnd_zero, L.rnd_one, L.rnd_neg_one]
    · exact L.rnd_one
  case logical_not =>
    cases hb : a.toBool? <;> simp [hb] at h
    cases h; exact rep_ofBool L _
  case upcast =>
    cases a <;> simp at h <;> cases h <;> simp_all [Rep]
    exact L.up_rep _ ha
  case downcast =>
    cases a <;> simp at h <;> cases h <;> simp_all [Rep]
    exact L.down_rep _
  case conjugate => cases h
  case real => cases h
  case imag => cases h
  all_goals
    cases a <;> simp at h
    obtain ⟨b, hb, rfl⟩ := h
    exact L.fn1_rep _ _ _ hb

theorem boolOp_rep (L : S.Laws) {f : Bool → Bool → Bool} {a b v : EV K} (h : boolOp f a b = some v) : Rep S v := by
  simp only [boolOp, Option.bind_eq_bind, Option.bind_eq_some_iff, Option.pure_def, Option.some.injEq] at h
  obtain ⟨x, _, y, _, rfl⟩ := h
  exact rep_ofBool L _

theorem bin_rep (L : S.Laws) {k : K2} {a b v : EV K} (ha : Rep S a) (hb : Rep S b) (h : S.bin k a b = some v) : Rep S v := by
  cases k <;> simp only [Sem.bin] at h
  case add => cases a <;> cases b <;> simp at h; exact rep_arith L h
  case subtract => cases a <;> cases b <;> simp at h; exact rep_arith L h
  case multiply => cases a <;> cases b <;> simp at h; exact rep_arith L h
  case divide =>
    cases a <;> cases b <;> simp at h
    exact rep_arith L h.2
  case minimum => cases h; unfold EV.min; split_ifs <;> assumption
  case maximum => cases h; unfold EV.max; split_ifs <;> assumption
  case logical_and => exact boolOp_rep L h
  case logical_or => exact boolOp_rep L h
  case logical_xor => exact boolOp_rep L h
  case complex => cases h
  case other n =>
    cases a <;> cases b <;> simp at h
    obtain ⟨c, hc, rfl⟩ := h
    exact L.fn2_rep _ _ _ _ hc
  all_goals (cases h; exact rep_ofBool L _)

theorem eval_rep (L : S.Laws) {env : Env K} (henv : EnvOK S env) :
    ∀ (e : Expr) (v : EV K), eval S env e = some v → Rep S v := by
  intro e
  induction e with
  | sym n t =>
    intro v h
    simp only [eval] at h
    cases v with
    | fin x => exact henv n t x h
    | ninf => trivial
    | pinf => trivial
  | const c l _ =>
    intro v h
    exact const_rep L h
  | un k x ih =>
    intro v h
    simp only [eval, Option.bind_eq_bind, Option.bind_eq_some_iff] at h
    obtain ⟨a, ha, h⟩ := h
    exact un_rep L (ih a ha) h
  | bin k x y ihx ihy =>
    intro v h
    simp only [eval, Option.bind_eq_bind, Option.bind_eq_some_iff] at h
    obtain ⟨a, ha, b, hb, h⟩ := h
    exact bin_rep L (ihx a ha) (ihy b hb) h
  | select c x y _ ihx ihy =>
    intro v h
    simp only [eval, Option.bind_eq_bind, Option.bind_eq_some_iff, Option.pure_def, Option.some.injEq] at h
    obtain ⟨vc, _, a, ha, b, hb, cb, _, rfl⟩ := h
    split_ifs
    · exact ihx a ha
    · exact ihy b hb

end FAVerif.Rewriter
