/-
C04 — soundness of the rule methods of the rewriter model: if a rule turns `e` into `e'` (in
strict mode) then `e'` is defined wherever `e` is and has the same value.
-/
import FAVerif.Lemmas.RewriterInfer
import FAVerif.Lemmas.RewriterTables

set_option linter.unusedSectionVars false
set_option linter.unusedVariables false
set_option linter.unusedSimpArgs false

namespace FAVerif.Rewriter
open FAVerif.SignAbs

variable {K : Type} [Field K] [LinearOrder K] [IsStrictOrderedRing K]
variable {S : Sem K} {env : Env K} {cfg : Cfg}

/-- `e'` is defined wherever `e` is, with the same value -/
def Sound (S : Sem K) (env : Env K) (e e' : Expr) : Prop :=
  ∀ v, eval S env e = some v → eval S env e' = some v

theorem Sound.refl (e : Expr) : Sound S env e e := fun _ h => h
theorem Sound.trans {a b c : Expr} (h1 : Sound S env a b) (h2 : Sound S env b c) : Sound S env a c :=
  fun v h => h2 v (h1 v h)

/-- the hypotheses under which the rules are sound -/
structure Hyp (S : Sem K) (env : Env K) (cfg : Cfg) where
  L : S.Laws
  henv : EnvOK S env
  strict : cfg.strict = true
  /-- constants that take part in folds are representable (`fp` mode: by the guard; exact
  arithmetic: every value is) -/
  rep : ∀ (v : CVal) (q : Rat), repGuard cfg v = true → v.ext? = some (.fin q) → S.rnd (q : K) = (q : K)
  ud : cfg.strictUD = true ∨ ∀ a : K, S.rnd a = a → S.up (S.down a) = a
  named : ∀ t s b, cfg.work = some t → namedBits t s = some b → S.named s = S.ofExt (extOfBits t.fmt b)
  nc : NC K
  hnc : S.named "smallest_subnormal" = some (.fin nc.a) ∧ S.named "smallest" = some (.fin nc.b) ∧
        S.named "eps" = some (.fin nc.c) ∧ S.named "largest" = some (.fin nc.d)
  tcc : ∀ row ∈ cfg.T.cc, rowSound row = true
  tca : ∀ row ∈ cfg.T.ca, (∃ n, row.1.1 = Key.num n) → rowSound row = true
  taa : ∀ row ∈ cfg.T.aa, rowSound row = true

/-! ## evaluation lemmas -/

theorem eval_un {k : K1} {x : Expr} {v : EV K} (h : eval S env (.un k x) = some v) :
    ∃ a, eval S env x = some a ∧ S.un k a = some v := by
  simpa only [eval, Option.bind_eq_bind, Option.bind_eq_some_iff] using h

theorem eval_bin {k : K2} {x y : Expr} {v : EV K} (h : eval S env (.bin k x y) = some v) :
    ∃ a b, eval S env x = some a ∧ eval S env y = some b ∧ S.bin k a b = some v := by
  simp only [eval, Option.bind_eq_bind, Option.bind_eq_some_iff] at h
  obtain ⟨a, ha, b, hb, h⟩ := h
  exact ⟨a, b, ha, hb, h⟩

theorem eval_select {c x y : Expr} {v : EV K} (h : eval S env (.select c x y) = some v) :
    ∃ vc a b cb, eval S env c = some vc ∧ eval S env x = some a ∧ eval S env y = some b ∧
      vc.toBool? = some cb ∧ v = (if cb then a else b) := by
  simp only [eval, Option.bind_eq_bind, Option.bind_eq_some_iff, Option.pure_def, Option.some.injEq] at h
  obtain ⟨vc, hc, a, ha, b, hb, cb, hcb, rfl⟩ := h
  exact ⟨vc, a, b, cb, hc, ha, hb, hcb, rfl⟩

theorem eval_un_of {k : K1} {x : Expr} {a : EV K} (ha : eval S env x = some a) :
    eval S env (.un k x) = S.un k a := by
  simp [eval, ha]

theorem eval_bin_of {k : K2} {x y : Expr} {a b : EV K} (ha : eval S env x = some a) (hb : eval S env y = some b) :
    eval S env (.bin k x y) = S.bin k a b := by
  simp [eval, ha, hb]

theorem eval_select_of {c x y : Expr} {a b : EV K} {cb : Bool} (hc : eval S env c = some (EV.ofBool cb))
    (ha : eval S env x = some a) (hb : eval S env y = some b) :
    eval S env (.select c x y) = some (if cb then a else b) := by
  simp [eval, hc, ha, hb]

theorem const_bool (L : S.Laws) (b : Bool) : S.const (.bool b) = some (EV.ofBool b) := by
  cases b <;> simp [Sem.const, CVal.ext?, Sem.ofExt, Sem.arith, L.ok_zero, L.ok_one, L.rnd_zero, L.rnd_one, EV.ofBool]

theorem eval_boolConst (L : S.Laws) (b : Bool) : eval S env (boolConst b) = some (EV.ofBool b) := by
  simp only [boolConst, eval]; exact const_bool L b

theorem const_canon {v : CVal} (h : (canonVal v).ext? = v.ext?) : S.const (canonVal v) = S.const v := by
  cases v <;> simp only [canonVal] at h ⊢
  case flt t b => simp only [Sem.const, h]
  case cplx t re im => simp [Sem.const, CVal.ext?]

theorem failIf_ok {c : Bool} {e : Err} {u : Unit} (h : failIf c e = .ok u) : c = false := by
  unfold failIf at h
  by_cases hc : c = true
  · simp [hc] at h
  · simpa using hc

/-- closes `some (ofBool f) = some (ofBool g)` for Boolean-equal `f`, `g` -/
macro "boolfin" : tactic =>
  `(tactic| first | rfl | (apply congrArg some; apply congrArg EV.ofBool; grind))

theorem eval_mkConst (hs : cfg.strict = true) {v : CVal} {l e' : Expr} (h : mkConst cfg v l = .ok e') :
    eval S env e' = S.const v := by
  simp only [mkConst, mkConstS, hs, Bool.true_and] at h
  by_cases hg : ((canonVal v).ext? != v.ext?) = true
  · simp [hg] at h
  · simp only [hg, if_false, Bool.false_eq_true] at h
    simp only [bind_eq_ok, pure_eq_ok] at h
    obtain ⟨l', _, h⟩ := h
    subst h
    simp only [eval]
    apply const_canon
    simpa using hg

/-- relational kinds evaluate to the truth value of the relation -/
theorem bin_rel (r : Rel) (a b : EV K) : S.bin r.kind a b = some (EV.ofBool (r.holds a b)) := by
  cases r <;> rfl
theorem bin_eq (a b : EV K) : S.bin .eq a b = some (EV.ofBool (Rel.eq.holds a b)) := rfl
theorem bin_ne (a b : EV K) : S.bin .ne a b = some (EV.ofBool (Rel.ne.holds a b)) := rfl
theorem bin_lt (a b : EV K) : S.bin .lt a b = some (EV.ofBool (Rel.lt.holds a b)) := rfl
theorem bin_le (a b : EV K) : S.bin .le a b = some (EV.ofBool (Rel.le.holds a b)) := rfl
theorem bin_gt (a b : EV K) : S.bin .gt a b = some (EV.ofBool (Rel.gt.holds a b)) := rfl
theorem bin_ge (a b : EV K) : S.bin .ge a b = some (EV.ofBool (Rel.ge.holds a b)) := rfl

theorem boolOp_ofBool (f : Bool → Bool → Bool) (x y : Bool) :
    boolOp f (EV.ofBool x : EV K) (EV.ofBool y) = some (EV.ofBool (f x y)) := by
  simp [boolOp]

theorem boolOp_some {f : Bool → Bool → Bool} {a b v : EV K} (h : boolOp f a b = some v) :
    ∃ x y, a = EV.ofBool x ∧ b = EV.ofBool y ∧ v = EV.ofBool (f x y) := by
  simp only [boolOp, Option.bind_eq_bind, Option.bind_eq_some_iff, Option.pure_def, Option.some.injEq] at h
  obtain ⟨x, hx, y, hy, rfl⟩ := h
  exact ⟨x, y, EV.toBool_eq hx, EV.toBool_eq hy, rfl⟩

theorem un_not_some {a v : EV K} (h : S.un .logical_not a = some v) : ∃ x, a = EV.ofBool x ∧ v = EV.ofBool (!x) := by
  simp only [Sem.un, Option.map_eq_some_iff] at h
  obtain ⟨x, hx, rfl⟩ := h
  exact ⟨x, EV.toBool_eq hx, rfl⟩

theorem un_not_ofBool (x : Bool) : S.un .logical_not (EV.ofBool x : EV K) = some (EV.ofBool (!x)) := by
  simp [Sem.un]

theorem constBool_eval (L : S.Laws) {x : Expr} {b : Bool} (h : constBool? x = some b) :
    eval S env x = some (EV.ofBool b) := by
  cases x <;> simp [constBool?] at h
  rename_i v l
  cases v <;> simp at h
  subst h
  simp only [eval]; exact const_bool L _

/-! ### relations on extended values -/

theorem holds_not_eq (a b : EV K) : (!Rel.eq.holds a b) = Rel.ne.holds a b := rfl
theorem holds_not_ne (a b : EV K) : (!Rel.ne.holds a b) = Rel.eq.holds a b := by simp [Rel.holds]
theorem holds_not_lt (a b : EV K) : (!Rel.lt.holds a b) = Rel.le.holds b a := by
  by_cases h : a.lt b <;> simp [Rel.holds, EV.le, h]
theorem holds_not_le (a b : EV K) : (!Rel.le.holds a b) = Rel.lt.holds b a := by
  by_cases h : b.lt a <;> simp [Rel.holds, EV.le, h]
theorem holds_not_gt (a b : EV K) : (!Rel.gt.holds a b) = Rel.le.holds a b := by
  by_cases h : b.lt a <;> simp [Rel.holds, EV.le, h]
theorem holds_not_ge (a b : EV K) : (!Rel.ge.holds a b) = Rel.lt.holds a b := by
  by_cases h : a.lt b <;> simp [Rel.holds, EV.le, h]

/-! ## `logical_not` -/

theorem rLogicalNot_sound (H : Hyp S env cfg) {x e' : Expr} (h : rLogicalNot cfg x = .ok (some e')) :
    Sound S env (.un .logical_not x) e' := by
  intro v hv
  obtain ⟨a, ha, hva⟩ := eval_un hv
  obtain ⟨xb, rfl, rfl⟩ := un_not_some hva
  unfold rLogicalNot at h
  split at h
  · -- boolean constant
    rename_i b like
    simp only [bind_eq_ok, pure_eq_ok, Option.some.injEq] at h
    obtain ⟨c, hc, rfl⟩ := h
    rw [eval_mkConst H.strict hc, const_bool H.L]
    simp only [eval, const_bool H.L, Option.some.injEq] at ha
    have : b = xb := by cases b <;> cases xb <;> simp_all [EV.ofBool]
    rw [this]
  all_goals
    simp only [pure_eq_ok, Option.some.injEq] at h
    try subst h
  · rename_i p q
    obtain ⟨u, w, hu, hw, hb⟩ := eval_bin ha
    rw [bin_eq] at hb
    rw [eval_bin_of hu hw, bin_ne]
    have := Option.some.inj hb
    cases hx : xb <;> simp_all [EV.ofBool, Rel.holds]
  · rename_i p q
    obtain ⟨u, w, hu, hw, hb⟩ := eval_bin ha
    rw [bin_ne] at hb
    rw [eval_bin_of hu hw, bin_eq]
    have := Option.some.inj hb
    cases hx : xb <;> simp_all [EV.ofBool, Rel.holds]
  · rename_i p q
    obtain ⟨u, w, hu, hw, hb⟩ := eval_bin ha
    rw [bin_lt] at hb
    rw [eval_bin_of hw hu, bin_le, ← holds_not_lt]
    have := Option.some.inj hb
    cases hx : xb <;> cases hl : Rel.lt.holds u w <;> simp_all [EV.ofBool]
  · rename_i p q
    obtain ⟨u, w, hu, hw, hb⟩ := eval_bin ha
    rw [bin_le] at hb
    rw [eval_bin_of hw hu, bin_lt, ← holds_not_le]
    have := Option.some.inj hb
    cases hx : xb <;> cases hl : Rel.le.holds u w <;> simp_all [EV.ofBool]
  · rename_i p q
    obtain ⟨u, w, hu, hw, hb⟩ := eval_bin ha
    rw [bin_gt] at hb
    rw [eval_bin_of hu hw, bin_le, ← holds_not_gt]
    have := Option.some.inj hb
    cases hx : xb <;> cases hl : Rel.gt.holds u w <;> simp_all [EV.ofBool]
  · rename_i p q
    obtain ⟨u, w, hu, hw, hb⟩ := eval_bin ha
    rw [bin_ge] at hb
    rw [eval_bin_of hu hw, bin_lt, ← holds_not_ge]
    have := Option.some.inj hb
    cases hx : xb <;> cases hl : Rel.ge.holds u w <;> simp_all [EV.ofBool]
  · cases h

theorem tryNot_sound (H : Hyp S env cfg) {x e' : Expr} (h : tryNot cfg x = .ok e') :
    Sound S env (.un .logical_not x) e' := by
  simp only [tryNot, bind_eq_ok] at h
  obtain ⟨o, ho, h⟩ := h
  cases o with
  | some r => simp only [pure_eq_ok] at h; subst h; exact rLogicalNot_sound H ho
  | none => simp only [pure_eq_ok] at h; subst h; exact Sound.refl _

/-- value of `not x` as produced by `tryNot` -/
theorem tryNot_eval (H : Hyp S env cfg) {x e' : Expr} {b : Bool} (h : tryNot cfg x = .ok e')
    (hx : eval S env x = some (EV.ofBool b)) : eval S env e' = some (EV.ofBool (!b)) := by
  apply tryNot_sound H h
  rw [eval_un_of hx, un_not_ofBool]

/-! ## `logical_and` -/

theorem eval_and {x y : Expr} {v : EV K} (h : eval S env (.bin .logical_and x y) = some v) :
    ∃ a b, eval S env x = some (EV.ofBool a) ∧ eval S env y = some (EV.ofBool b) ∧ v = EV.ofBool (a && b) := by
  obtain ⟨u, w, hu, hw, hb⟩ := eval_bin h
  obtain ⟨a, b, rfl, rfl, rfl⟩ := boolOp_some hb
  exact ⟨a, b, hu, hw, rfl⟩

theorem eval_or {x y : Expr} {v : EV K} (h : eval S env (.bin .logical_or x y) = some v) :
    ∃ a b, eval S env x = some (EV.ofBool a) ∧ eval S env y = some (EV.ofBool b) ∧ v = EV.ofBool (a || b) := by
  obtain ⟨u, w, hu, hw, hb⟩ := eval_bin h
  obtain ⟨a, b, rfl, rfl, rfl⟩ := boolOp_some hb
  exact ⟨a, b, hu, hw, rfl⟩

theorem eval_and_of {x y : Expr} {a b : Bool} (hx : eval S env x = some (EV.ofBool a)) (hy : eval S env y = some (EV.ofBool b)) :
    eval S env (.bin .logical_and x y) = some (EV.ofBool (a && b)) := by
  rw [eval_bin_of hx hy]; exact boolOp_ofBool _ _ _

theorem eval_or_of {x y : Expr} {a b : Bool} (hx : eval S env x = some (EV.ofBool a)) (hy : eval S env y = some (EV.ofBool b)) :
    eval S env (.bin .logical_or x y) = some (EV.ofBool (a || b)) := by
  rw [eval_bin_of hx hy]; exact boolOp_ofBool _ _ _

theorem ofBool_inj {a b : Bool} (h : (EV.ofBool a : EV K) = EV.ofBool b) : a = b := by
  cases a <;> cases b <;> simp_all [EV.ofBool]

theorem rLogicalAnd_sound (H : Hyp S env cfg) {x y e' : Expr} (h : rLogicalAnd cfg x y = .ok (some e')) :
    Sound S env (.bin .logical_and x y) e' := by
  intro v hv
  obtain ⟨a, b, hx, hy, rfl⟩ := eval_and hv
  obtain ⟨m, hm, h⟩ := firstSome_ok h
  simp only [List.mem_cons, List.mem_singleton, List.not_mem_nil, or_false] at hm
  rcases hm with rfl | rfl | rfl | rfl | rfl | rfl
  · simp only [pure_eq_ok, Option.map_eq_some_iff] at h
    obtain ⟨c, hc, rfl⟩ := h
    have := constBool_eval (env := env) H.L hc
    rw [hx] at this
    have := ofBool_inj (Option.some.inj this)
    subst this
    cases a
    · simp [eval_boolConst H.L]
    · simpa using hy
  · simp only [pure_eq_ok, Option.map_eq_some_iff] at h
    obtain ⟨c, hc, rfl⟩ := h
    have := constBool_eval (env := env) H.L hc
    rw [hy] at this
    have := ofBool_inj (Option.some.inj this)
    subst this
    cases b
    · simp [eval_boolConst H.L]
    · simpa using hx
  · simp only [pure_eq_ok] at h
    split_ifs at h with he
    cases h
    have : x = y := by simpa using he
    subst this
    rw [hx] at hy
    have := ofBool_inj (Option.some.inj hy)
    subst this
    simpa using hx
  · simp only [pure_eq_ok] at h
    split at h
    · rename_i p q
      split_ifs at h with he
      cases h
      obtain ⟨u, w, hu, hw, hb⟩ := eval_and hx
      simp only [Bool.or_eq_true, beq_iff_eq] at he
      rcases he with rfl | rfl
      · rw [hw] at hy
        have := ofBool_inj (Option.some.inj hy); subst this
        have := ofBool_inj hb; subst this
        rw [hx]; boolfin
      · rw [hu] at hy
        have := ofBool_inj (Option.some.inj hy); subst this
        have := ofBool_inj hb; subst this
        rw [hx]; boolfin
    · cases h
  · simp only [pure_eq_ok] at h
    split at h
    · rename_i p q
      split_ifs at h with he
      cases h
      obtain ⟨u, w, hu, hw, hb⟩ := eval_and hy
      simp only [Bool.or_eq_true, beq_iff_eq] at he
      rcases he with rfl | rfl
      · rw [hu] at hx
        have := ofBool_inj (Option.some.inj hx); subst this
        have := ofBool_inj hb; subst this
        rw [hy]; boolfin
      · rw [hw] at hx
        have := ofBool_inj (Option.some.inj hx); subst this
        have := ofBool_inj hb; subst this
        rw [hy]; boolfin
    · cases h
  · simp only [bind_eq_ok] at h
    obtain ⟨c, _, h⟩ := h
    split_ifs at h
    · simp only [pure_eq_ok, Option.some.injEq] at h
      subst h
      rw [eval_and_of hy hx, Bool.and_comm]
    · simp at h

theorem tryAnd_sound (H : Hyp S env cfg) {x y e' : Expr} (h : tryAnd cfg x y = .ok e') :
    Sound S env (.bin .logical_and x y) e' := by
  simp only [tryAnd, bind_eq_ok] at h
  obtain ⟨o, ho, h⟩ := h
  cases o with
  | some r => simp only [pure_eq_ok] at h; subst h; exact rLogicalAnd_sound H ho
  | none => simp only [pure_eq_ok] at h; subst h; exact Sound.refl _

theorem tryAnd_eval (H : Hyp S env cfg) {x y e' : Expr} {a b : Bool} (h : tryAnd cfg x y = .ok e')
    (hx : eval S env x = some (EV.ofBool a)) (hy : eval S env y = some (EV.ofBool b)) :
    eval S env e' = some (EV.ofBool (a && b)) :=
  tryAnd_sound H h _ (eval_and_of hx hy)

/-! ## `logical_or` -/

theorem orStep_sound (H : Hyp S env cfg) {x y e' : Expr} {a b : Bool} (h : orStep cfg x y = .ok (some e'))
    (hx : eval S env x = some (EV.ofBool a)) (hy : eval S env y = some (EV.ofBool b)) :
    eval S env e' = some (EV.ofBool (a || b)) := by
  unfold orStep at h
  split at h
  · rename_i c hc
    simp only [pure_eq_ok, Option.some.injEq] at h
    subst h
    have := constBool_eval (env := env) H.L hc
    rw [hx] at this
    have := ofBool_inj (Option.some.inj this)
    subst this
    cases a
    · simpa using hy
    · simp [eval_boolConst H.L]
  · simp only [bind_eq_ok] at h
    obtain ⟨notY, hn, h⟩ := h
    have hnotY := tryNot_eval H hn hy
    split at h
    · rename_i _ _ p q _
      obtain ⟨u, w, hu, hw, hb⟩ := eval_and hx
      have := ofBool_inj hb; subst this
      split_ifs at h with h1 h2 h3 h4 <;> simp only [pure_eq_ok, Option.some.injEq] at h <;> try subst h
      · have : p = notY := by simpa using h1
        subst this
        rw [hu] at hnotY
        have := ofBool_inj (Option.some.inj hnotY); subst this
        rw [eval_or_of hw hy]; boolfin
      · have : Expr.un K1.logical_not p = y := by simpa using h2
        subst this
        rw [eval_un_of hu, un_not_ofBool] at hy
        have := ofBool_inj (Option.some.inj hy); subst this
        rw [eval_or_of hw (by rw [eval_un_of hu, un_not_ofBool])]; boolfin
      · have : q = notY := by simpa using h3
        subst this
        rw [hw] at hnotY
        have := ofBool_inj (Option.some.inj hnotY); subst this
        rw [eval_or_of hu hy]; boolfin
      · have : Expr.un K1.logical_not q = y := by simpa using h4
        subst this
        rw [eval_un_of hw, un_not_ofBool] at hy
        have := ofBool_inj (Option.some.inj hy); subst this
        rw [eval_or_of hu (by rw [eval_un_of hw, un_not_ofBool])]; boolfin
      · cases h
    · simp at h

theorem rLogicalOr_sound (H : Hyp S env cfg) {x y e' : Expr} (h : rLogicalOr cfg x y = .ok (some e')) :
    Sound S env (.bin .logical_or x y) e' := by
  intro v hv
  obtain ⟨a, b, hx, hy, rfl⟩ := eval_or hv
  obtain ⟨m, hm, h⟩ := firstSome_ok h
  simp only [List.mem_cons, List.mem_singleton, List.not_mem_nil, or_false] at hm
  rcases hm with rfl | rfl | rfl | rfl
  · exact orStep_sound H h hx hy
  · rw [Bool.or_comm]; exact orStep_sound H h hy hx
  · simp only [pure_eq_ok] at h
    split_ifs at h with he
    cases h
    have : x = y := by simpa using he
    subst this
    rw [hx] at hy
    have := ofBool_inj (Option.some.inj hy)
    subst this
    simpa using hx
  · simp only [bind_eq_ok] at h
    obtain ⟨c, _, h⟩ := h
    split_ifs at h
    · simp only [pure_eq_ok, Option.some.injEq] at h
      subst h
      rw [eval_or_of hy hx, Bool.or_comm]
    · simp at h

/-! ## algebraic rules on arithmetic kinds -/

theorem eq1_sound (L : S.Laws) {v : CVal} {a : EV K} (hn : v.isNumber = true) (h1 : v.eq1 = true)
    (ha : S.const v = some a) : a = .fin 1 := by
  cases v <;> simp [CVal.isNumber] at hn
  case cplx t re im => simp [Sem.const, CVal.ext?] at ha
  case bool b =>
    simp only [CVal.eq1] at h1; subst h1
    rw [const_bool L] at ha; cases ha; simp [EV.ofBool]
  case int n =>
    have : n = 1 := by simpa [CVal.eq1] using h1
    subst this
    simp [Sem.const, CVal.ext?, Sem.ofExt] at ha
    obtain ⟨_, rfl⟩ := arith_eq_some ha
    simp [L.rnd_one]
  case flt t bits =>
    rw [const_of_ext (x := extOfBits t.fmt bits) (by simp [CVal.isReal]) rfl] at ha
    have he : extOfBits t.fmt bits = .fin 1 := by simpa [CVal.eq1, extEqQ] using h1
    rw [he] at ha
    simp only [Sem.ofExt, Rat.cast_one] at ha
    obtain ⟨_, rfl⟩ := arith_eq_some ha
    simp [L.rnd_one]

theorem constIs_zero (L : S.Laws) {x : Expr} {v : EV K} (h : constIs CVal.eq0 x = true) (hv : eval S env x = some v) :
    v = .fin 0 := by
  cases x <;> simp [constIs] at h
  rename_i c l
  have := eq0_sound L h.1 (by simpa [eval] using hv)
  rw [h.2] at this
  exact this

theorem constIs_one (L : S.Laws) {x : Expr} {v : EV K} (h : constIs CVal.eq1 x = true) (hv : eval S env x = some v) :
    v = .fin 1 := by
  cases x <;> simp [constIs] at h
  rename_i c l
  exact eq1_sound L h.1 h.2 (by simpa [eval] using hv)

theorem rep_fin (H : Hyp S env cfg) {e : Expr} {a : K} (h : eval S env e = some (.fin a)) : S.rnd a = a :=
  eval_rep H.L H.henv e _ h

/-- `x + y`, `x - y`, `x * y`, `x / y` need finite operands -/
theorem bin_arith_fin {k : K2} (hk : k = .add ∨ k = .subtract ∨ k = .multiply ∨ k = .divide) {a b v : EV K}
    (h : S.bin k a b = some v) : ∃ x y, a = .fin x ∧ b = .fin y := by
  rcases hk with rfl | rfl | rfl | rfl <;> cases a <;> cases b <;> simp [Sem.bin] at h <;> exact ⟨_, _, rfl, rfl⟩

theorem add_zero_left_sound (H : Hyp S env cfg) {x y : Expr} (h : constIs CVal.eq0 x = true) :
    Sound S env (.bin .add x y) y := by
  intro v hv
  obtain ⟨a, b, ha, hb, hv⟩ := eval_bin hv
  have := constIs_zero H.L h ha; subst this
  obtain ⟨_, yb, h1, rfl⟩ := bin_arith_fin (Or.inl rfl) hv
  simp only [Sem.bin, zero_add] at hv
  obtain ⟨_, rfl⟩ := arith_eq_some hv
  rw [rep_fin H hb]; exact hb

theorem add_zero_right_sound (H : Hyp S env cfg) {x y : Expr} (h : constIs CVal.eq0 y = true) :
    Sound S env (.bin .add x y) x := by
  intro v hv
  obtain ⟨a, b, ha, hb, hv⟩ := eval_bin hv
  have := constIs_zero H.L h hb; subst this
  obtain ⟨xa, _, rfl, h1⟩ := bin_arith_fin (Or.inl rfl) hv
  simp only [Sem.bin, add_zero] at hv
  obtain ⟨_, rfl⟩ := arith_eq_some hv
  rw [rep_fin H ha]; exact ha

theorem sub_zero_left_sound (H : Hyp S env cfg) {x y : Expr} (h : constIs CVal.eq0 x = true) :
    Sound S env (.bin .subtract x y) (.un .negative y) := by
  intro v hv
  obtain ⟨a, b, ha, hb, hv⟩ := eval_bin hv
  have := constIs_zero H.L h ha; subst this
  obtain ⟨_, yb, h1, rfl⟩ := bin_arith_fin (Or.inr (Or.inl rfl)) hv
  simp only [Sem.bin, zero_sub] at hv
  obtain ⟨_, rfl⟩ := arith_eq_some hv
  rw [eval_un_of hb, H.L.odd, rep_fin H hb]; rfl

theorem sub_zero_right_sound (H : Hyp S env cfg) {x y : Expr} (h : constIs CVal.eq0 y = true) :
    Sound S env (.bin .subtract x y) x := by
  intro v hv
  obtain ⟨a, b, ha, hb, hv⟩ := eval_bin hv
  have := constIs_zero H.L h hb; subst this
  obtain ⟨xa, _, rfl, h1⟩ := bin_arith_fin (Or.inr (Or.inl rfl)) hv
  simp only [Sem.bin, sub_zero] at hv
  obtain ⟨_, rfl⟩ := arith_eq_some hv
  rw [rep_fin H ha]; exact ha

theorem mul_one_left_sound (H : Hyp S env cfg) {x y : Expr} (h : constIs CVal.eq1 x = true) :
    Sound S env (.bin .multiply x y) y := by
  intro v hv
  obtain ⟨a, b, ha, hb, hv⟩ := eval_bin hv
  have := constIs_one H.L h ha; subst this
  obtain ⟨_, yb, h1, rfl⟩ := bin_arith_fin (Or.inr (Or.inr (Or.inl rfl))) hv
  simp only [Sem.bin, one_mul] at hv
  obtain ⟨_, rfl⟩ := arith_eq_some hv
  rw [rep_fin H hb]; exact hb

theorem mul_one_right_sound (H : Hyp S env cfg) {x y : Expr} (h : constIs CVal.eq1 y = true) :
    Sound S env (.bin .multiply x y) x := by
  intro v hv
  obtain ⟨a, b, ha, hb, hv⟩ := eval_bin hv
  have := constIs_one H.L h hb; subst this
  obtain ⟨xa, _, rfl, h1⟩ := bin_arith_fin (Or.inr (Or.inr (Or.inl rfl))) hv
  simp only [Sem.bin, mul_one] at hv
  obtain ⟨_, rfl⟩ := arith_eq_some hv
  rw [rep_fin H ha]; exact ha

theorem rDivide_sound (H : Hyp S env cfg) {x y e' : Expr} (h : rDivide cfg x y = .ok (some e')) :
    Sound S env (.bin .divide x y) e' := by
  unfold rDivide at h
  split_ifs at h with h1
  · simp only [pure_eq_ok, Option.some.injEq] at h; subst h
    intro v hv
    obtain ⟨a, b, ha, hb, hv⟩ := eval_bin hv
    have := constIs_one H.L h1 hb; subst this
    obtain ⟨xa, _, rfl, _⟩ := bin_arith_fin (Or.inr (Or.inr (Or.inr rfl))) hv
    simp only [Sem.bin, one_ne_zero, if_false, div_one] at hv
    obtain ⟨_, rfl⟩ := arith_eq_some hv
    rw [rep_fin H ha]; exact ha
  · simp at h

theorem neg_neg_sound (a : Expr) : Sound S env (.un .negative (.un .negative a)) a := by
  intro v hv
  obtain ⟨u, hu, hv⟩ := eval_un hv
  obtain ⟨w, hw, hu⟩ := eval_un hu
  simp only [Sem.un, Option.some.injEq] at hu hv
  subst hu hv
  rw [hw]; cases w <;> simp [EV.neg]

theorem abs_abs_sound (a : Expr) : Sound S env (.un .absolute (.un .absolute a)) (.un .absolute a) := by
  intro v hv
  obtain ⟨u, hu, hv⟩ := eval_un hv
  rw [hu]
  obtain ⟨w, hw, hu'⟩ := eval_un hu
  simp only [Sem.un, Option.some.injEq] at hu' hv
  subst hu' hv
  cases w <;> simp [EV.abs]

theorem sign_sign_sound (a : Expr) : Sound S env (.un .sign (.un .sign a)) (.un .sign a) := by
  intro v hv
  obtain ⟨u, hu, hv⟩ := eval_un hv
  rw [hu]
  obtain ⟨w, hw, hu'⟩ := eval_un hu
  simp only [Sem.un, Option.some.injEq] at hu' hv
  subst hu' hv
  cases w <;> simp only [EV.sign]
  · norm_num
  · rename_i x
    split_ifs <;> simp_all <;> linarith
  · norm_num

theorem rUpcast_sound (H : Hyp S env cfg) {x e' : Expr} (h : rUpcast cfg x = .ok (some e')) :
    Sound S env (.un .upcast x) e' := by
  unfold rUpcast at h
  split at h
  · rename_i a
    by_cases hud : cfg.strictUD = true
    · simp [hud] at h
    · simp only [hud, Bool.false_eq_true, if_false, pure_eq_ok, Option.some.injEq] at h; subst h
      intro v hv
      obtain ⟨u, hu, hv⟩ := eval_un hv
      obtain ⟨w, hw, hu'⟩ := eval_un hu
      rcases H.ud with h' | h'
      · exact absurd h' hud
      · cases w <;> simp only [Sem.un, Option.some.injEq] at hu' <;> subst hu' <;>
          simp only [Sem.un, Option.some.injEq] at hv <;> subst hv
        · exact hw
        · rw [h' _ (rep_fin H hw)]; exact hw
        · exact hw
  · simp at h

theorem rDowncast_sound (H : Hyp S env cfg) {x e' : Expr} (h : rDowncast cfg x = .ok (some e')) :
    Sound S env (.un .downcast x) e' := by
  unfold rDowncast at h
  split at h
  · rename_i a
    simp only [pure_eq_ok, Option.some.injEq] at h; subst h
    intro v hv
    obtain ⟨u, hu, hv⟩ := eval_un hv
    obtain ⟨w, hw, hu'⟩ := eval_un hu
    cases w <;> simp only [Sem.un, Option.some.injEq] at hu' <;> subst hu' <;>
      simp only [Sem.un, Option.some.injEq] at hv <;> subst hv
    · exact hw
    · rw [H.L.down_up _ (rep_fin H hw)]; exact hw
    · exact hw
  · simp at h

theorem const_int_zero (L : S.Laws) : S.const (.int 0) = some (.fin (0 : K)) := by
  simp [Sem.const, CVal.ext?, Sem.ofExt, Sem.arith, L.ok_zero, L.rnd_zero]

theorem rLog_sound (H : Hyp S env cfg) {k : K1} (hk : k = .log ∨ k = .log10 ∨ k = .log2) {x e' : Expr}
    (h : rLog cfg x = .ok (some e')) : Sound S env (.un k x) e' := by
  unfold rLog at h
  split at h
  · rename_i c l
    split_ifs at h with h1
    · simp only [bind_eq_ok, pure_eq_ok, Option.some.injEq] at h
      obtain ⟨e2, he2, rfl⟩ := h
      intro v hv
      obtain ⟨u, hu, hv⟩ := eval_un hv
      simp only [Bool.and_eq_true] at h1
      have := eq1_sound H.L h1.1 h1.2 (by simpa [eval] using hu)
      subst this
      rw [eval_mkConst H.strict he2, const_int_zero H.L]
      rcases hk with rfl | rfl | rfl <;> simp only [Sem.un, K1.name] at hv
      · rw [H.L.log_one.1] at hv; simpa using hv
      · rw [H.L.log_one.2.2] at hv; simpa using hv
      · rw [H.L.log_one.2.1] at hv; simpa using hv
    · simp at h
  · simp at h

theorem rLog1p_sound (H : Hyp S env cfg) {x e' : Expr} (h : rLog1p cfg x = .ok (some e')) :
    Sound S env (.un .log1p x) e' := by
  unfold rLog1p at h
  split at h
  · rename_i c l
    split_ifs at h with h1
    · simp only [pure_eq_ok, Option.some.injEq] at h; subst h
      intro v hv
      obtain ⟨u, hu, hv⟩ := eval_un hv
      simp only [Bool.and_eq_true] at h1
      have := eq0_sound H.L h1.1 (by simpa [eval] using hu)
      rw [h1.2] at this
      simp only [ZeroFact] at this
      subst this
      simp only [Sem.un, K1.name, H.L.log1p_zero] at hv
      rw [hu]; simpa using hv
    · simp at h
  · simp at h

/-! ## constants -/

theorem pnum_ext {v : CVal} {a : PNum} (h : v.pnum? = some a) : v.ext? = some a.ext ∧ v.isReal = true := by
  cases v <;> simp [CVal.pnum?] at h <;> subst h <;> simp [CVal.ext?, PNum.ext, CVal.isReal]

theorem const_pnum {v : CVal} {a : PNum} (h : v.pnum? = some a) : S.const v = S.ofExt a.ext := by
  obtain ⟨h1, h2⟩ := pnum_ext h
  exact const_of_ext h2 h1

theorem toCVal_ext (p : PNum) : p.toCVal.ext? = some p.ext ∧ p.toCVal.isReal = true := by
  cases p <;> simp [PNum.toCVal, mkFlt, CVal.ext?, PNum.ext, CVal.isReal]

theorem const_toCVal (p : PNum) : S.const p.toCVal = S.ofExt p.ext :=
  const_of_ext (toCVal_ext p).2 (toCVal_ext p).1

theorem const_real_eq {v w : CVal} (hv : v.isReal = true) (hw : w.isReal = true) (h : w.ext? = v.ext?) :
    S.const w = S.const v := by
  obtain ⟨x, hx⟩ := isReal_ext hv
  rw [const_of_ext hv hx, const_of_ext hw (h.trans hx)]

theorem guardExact_ok (hs : cfg.strict = true) {w : String} {r : ExtQ} {q : Option Rat} {u : Unit}
    (h : guardExact cfg w r q = .ok u) : ∃ q', q = some q' ∧ r = .fin q' := by
  unfold guardExact at h
  simp only [hs, if_true] at h
  cases q with
  | none => simp at h
  | some q' =>
    refine ⟨q', rfl, ?_⟩
    by_cases hr : (r == ExtQ.fin q') = true
    · simpa using hr
    · simp [hr] at h

theorem guardRep_ok {v : CVal} {u : Unit} (h : guardRep cfg v = .ok u) : repGuard cfg v = true := by
  unfold guardRep at h
  by_cases hr : repGuard cfg v = true
  · exact hr
  · simp [hr] at h

/-- value of a representable numeric constant -/
theorem const_rep_val (H : Hyp S env cfg) {v : CVal} {q : Rat} {a : EV K} (hg : repGuard cfg v = true)
    (hreal : v.isReal = true) (hx : v.ext? = some (.fin q)) (ha : S.const v = some a) :
    a = .fin (q : K) ∧ S.ok (q : K) = true := by
  rw [const_of_ext hreal hx] at ha
  simp only [Sem.ofExt] at ha
  obtain ⟨hok, rfl⟩ := arith_eq_some ha
  rw [H.rep v q hg hx]
  exact ⟨rfl, hok⟩

def AOp.kind : AOp → K2
  | .add => .add | .sub => .subtract | .mul => .multiply
def AOp.onK (op : AOp) (a b : K) : K :=
  match op with
  | .add => a + b | .sub => a - b | .mul => a * b

theorem bin_aop (op : AOp) (a b : K) : S.bin op.kind (.fin a) (.fin b) = S.arith (op.onK a b) := by
  cases op <;> rfl

theorem cast_onRat (op : AOp) (p q : Rat) : ((op.onRat p q : Rat) : K) = op.onK (p : K) (q : K) := by
  cases op <;> simp [AOp.onRat, AOp.onK]

theorem foldArith_sound (H : Hyp S env cfg) {op : AOp} {x y e' : Expr} (h : foldArith cfg op x y = .ok (some e')) :
    Sound S env (.bin op.kind x y) e' := by
  unfold foldArith at h
  split at h
  · rename_i xv xl yv yl
    split_ifs at h with hn
    · split at h
      · rename_i a b ha hb
        simp only [bind_eq_ok, pure_eq_ok, Option.some.injEq] at h
        obtain ⟨r, hr, u1, h1, u2, h2, u3, h3, u4, h4, e2, he2, rfl⟩ := h
        obtain ⟨q', hq, hrq⟩ := guardExact_ok H.strict h4
        intro v hv
        obtain ⟨va, vb, hva, hvb, hv⟩ := eval_bin hv
        simp only [eval] at hva hvb
        -- operands are finite rationals
        cases hpa : a.ext <;> cases hpb : b.ext <;> simp only [hpa, hpb] at hq <;> try (cases hq)
        rename_i p1 p2
        obtain ⟨rfl, _⟩ := const_rep_val H (guardRep_ok h2) (pnum_ext ha).2 ((pnum_ext ha).1.trans (by rw [hpa])) hva
        obtain ⟨rfl, _⟩ := const_rep_val H (guardRep_ok h3) (pnum_ext hb).2 ((pnum_ext hb).1.trans (by rw [hpb])) hvb
        rw [bin_aop] at hv
        rw [eval_mkConst H.strict he2, const_toCVal, hrq]
        simp only [Sem.ofExt, cast_onRat]
        exact hv
      · simp at h
    · simp at h
  · simp at h

theorem extK_lt {x y : ExtQ} {a b : EV K} (hx : extK x = some a) (hy : extK y = some b) :
    ExtQ.lt x y = true ↔ EV.lt a b := by
  cases x <;> cases y <;> simp only [extK, Option.some.injEq] at hx hy <;> (try cases hx) <;> (try cases hy) <;>
    (try subst hx) <;> (try subst hy) <;> simp [ExtQ.lt, EV.lt]

theorem extK_le {x y : ExtQ} {a b : EV K} (hx : extK x = some a) (hy : extK y = some b) :
    ExtQ.le x y = true ↔ EV.le a b := by
  cases x <;> cases y <;> simp only [extK, Option.some.injEq] at hx hy <;> (try cases hx) <;> (try cases hy) <;>
    (try subst hx) <;> (try subst hy) <;> simp [ExtQ.le, EV.le, EV.lt]

theorem extK_eq {x y : ExtQ} {a b : EV K} (hx : extK x = some a) (hy : extK y = some b) :
    ExtQ.eq x y = true ↔ a = b := by
  cases x <;> cases y <;> simp only [extK, Option.some.injEq] at hx hy <;> (try cases hx) <;> (try cases hy) <;>
    (try subst hx) <;> (try subst hy) <;> simp [ExtQ.eq]

theorem extK_rel (r : Rel) {x y : ExtQ} {a b : EV K} (hx : extK x = some a) (hy : extK y = some b) :
    r.onExt x y = r.holds a b := by
  cases r <;> simp only [Rel.onExt, Rel.holds]
  · rw [Bool.eq_iff_iff, extK_le hy hx]; simp
  · rw [Bool.eq_iff_iff, extK_lt hy hx]; simp
  · rw [Bool.eq_iff_iff, extK_le hx hy]; simp
  · rw [Bool.eq_iff_iff, extK_lt hx hy]; simp
  · rw [Bool.eq_iff_iff, extK_eq hx hy]; simp
  · have := extK_eq hx hy
    by_cases h : a = b <;> simp_all

/-- value of a representable numeric constant, as an embedded extended rational -/
theorem const_extK (H : Hyp S env cfg) {v : CVal} {p : PNum} {a : EV K} (hp : v.pnum? = some p)
    (hg : repGuard cfg v = true) (ha : S.const v = some a) : extK p.ext = some a := by
  rw [const_pnum hp] at ha
  cases hx : p.ext <;> simp only [hx, Sem.ofExt] at ha ⊢
  · cases ha
  · cases ha; rfl
  · rename_i q
    obtain ⟨_, rfl⟩ := arith_eq_some ha
    rw [H.rep v q hg ((pnum_ext hp).1.trans (by rw [hx]))]
    rfl
  · cases ha; rfl

/-- the constant chosen by Python's `min`/`max`: `b` when `c`, else `a` -/
theorem pick_const {xv yv : CVal} {a b r : PNum} {va vb : EV K} {c : Bool}
    (hr : r = if c = true then b else a) (hva : S.const xv = some va) (hvb : S.const yv = some vb)
    (hab : b = a → va = vb) :
    S.const (if (r == a) = true then xv else yv) = some (if c = true then vb else va) := by
  cases c
  · simp only [Bool.false_eq_true, if_false] at hr ⊢
    subst hr
    simp only [beq_self_eq_true, if_true]; exact hva
  · simp only [if_true] at hr ⊢
    subst hr
    by_cases h : (r == a) = true
    · have : r = a := by simpa using h
      rw [if_pos h, hva, hab this]
    · rw [if_neg h]; exact hvb

theorem foldMinMax_sound (H : Hyp S env cfg) {isMin : Bool} {x y e' : Expr}
    (h : foldMinMax cfg isMin x y = .ok (some e')) :
    Sound S env (.bin (if isMin then .minimum else .maximum) x y) e' := by
  cases isMin
  ·
    unfold foldMinMax at h
    simp only [Bool.false_eq_true, if_false, if_true] at h ⊢
    split at h
    · rename_i xv xl yv yl
      by_cases hn : (xv.isNumber && yv.isNumber) = true
      · rw [if_pos hn] at h
        split at h
        · rename_i a b ha hb
          simp only [bind_eq_ok, pure_eq_ok, Option.some.injEq] at h
          obtain ⟨r, hr, u1, h1, u2, h2, u3, h3, u4, h4, u5, h5, e2, he2, rfl⟩ := h
          have h4 := failIf_ok h4
          simp only [H.strict, Bool.true_and, bne_eq_false_iff_eq] at h4
          intro v hv
          obtain ⟨va, vb, hva, hvb, hv⟩ := eval_bin hv
          simp only [eval] at hva hvb
          have ea := const_extK H ha (guardRep_ok h2) hva
          have eb := const_extK H hb (guardRep_ok h3) hvb
          have hab : b = a → va = vb := by
            intro e; subst e; rw [ea] at eb; exact Option.some.inj eb
          rw [eval_mkConst H.strict he2]
          simp only [Sem.bin, Option.some.injEq] at hv
          subst hv
          rw [pick_const h4 hva hvb hab]
          have hgt : Rel.gt.onExt b.ext a.ext = Rel.gt.holds vb va := extK_rel .gt eb ea
          rw [hgt]
          simp only [Rel.holds, decide_eq_true_eq, EV.max]
        · simp at h
      · rw [if_neg hn] at h; simp at h
    · simp at h
  ·
    unfold foldMinMax at h
    simp only [Bool.false_eq_true, if_false, if_true] at h ⊢
    split at h
    · rename_i xv xl yv yl
      by_cases hn : (xv.isNumber && yv.isNumber) = true
      · rw [if_pos hn] at h
        split at h
        · rename_i a b ha hb
          simp only [bind_eq_ok, pure_eq_ok, Option.some.injEq] at h
          obtain ⟨r, hr, u1, h1, u2, h2, u3, h3, u4, h4, u5, h5, e2, he2, rfl⟩ := h
          have h4 := failIf_ok h4
          simp only [H.strict, Bool.true_and, bne_eq_false_iff_eq] at h4
          intro v hv
          obtain ⟨va, vb, hva, hvb, hv⟩ := eval_bin hv
          simp only [eval] at hva hvb
          have ea := const_extK H ha (guardRep_ok h2) hva
          have eb := const_extK H hb (guardRep_ok h3) hvb
          have hab : b = a → va = vb := by
            intro e; subst e; rw [ea] at eb; exact Option.some.inj eb
          rw [eval_mkConst H.strict he2]
          simp only [Sem.bin, Option.some.injEq] at hv
          subst hv
          rw [pick_const h4 hva hvb hab]
          have hgt : Rel.lt.onExt b.ext a.ext = Rel.lt.holds vb va := extK_rel .lt eb ea
          rw [hgt]
          simp only [Rel.holds, decide_eq_true_eq, EV.min]
        · simp at h
      · rw [if_neg hn] at h; simp at h
    · simp at h

theorem ofExt_neg (L : S.Laws) (x : ExtQ) : S.ofExt x.neg = (S.ofExt x).map EV.neg := by
  cases x <;> simp only [ExtQ.neg, Sem.ofExt, Option.map_none, Option.map_some, EV.neg]
  rename_i q
  simp only [Sem.arith, Rat.cast_neg, L.ok_neg, L.odd]
  split_ifs <;> simp [EV.neg]

theorem cast_abs_rat (q : Rat) : (((if q < 0 then -q else q : Rat)) : K) = |(q : K)| := by
  split_ifs with h
  · rw [abs_of_neg (by exact_mod_cast h)]; simp
  · rw [abs_of_nonneg (by exact_mod_cast (not_lt.1 h))]

theorem ok_abs (L : S.Laws) (z : K) : S.ok |z| = S.ok z := by
  rcases le_total 0 z with h | h
  · rw [abs_of_nonneg h]
  · rw [abs_of_nonpos h, L.ok_neg]

theorem ofExt_abs (L : S.Laws) (x : ExtQ) (hx : x ≠ .nan) : S.ofExt x.abs = (S.ofExt x).map EV.abs := by
  cases x with
  | nan => exact absurd rfl hx
  | ninf => simp [ExtQ.abs, Sem.ofExt, EV.abs]
  | pinf => simp [ExtQ.abs, Sem.ofExt, EV.abs]
  | fin q =>
    simp only [ExtQ.abs, Sem.ofExt, Sem.arith, cast_abs_rat, ok_abs L, L.rnd_abs]
    split_ifs <;> simp [EV.abs]

theorem rNegative_sound (H : Hyp S env cfg) {x e' : Expr} (h : rNegative cfg x = .ok (some e')) :
    Sound S env (.un .negative x) e' := by
  unfold rNegative at h
  split at h
  · rename_i v like
    split_ifs at h with hn
    · split at h
      · -- complex constant: undefined
        intro w hw
        obtain ⟨a, ha, _⟩ := eval_un hw
        simp [eval, Sem.const, CVal.ext?] at ha
      · split at h
        · rename_i p hp
          simp only [bind_eq_ok, pure_eq_ok, Option.some.injEq] at h
          obtain ⟨u1, h1, e2, he2, rfl⟩ := h
          have h1 := failIf_ok h1
          simp only [H.strict, Bool.true_and, bne_eq_false_iff_eq] at h1
          intro w hw
          obtain ⟨a, ha, hw⟩ := eval_un hw
          simp only [eval] at ha
          rw [const_pnum hp] at ha
          rw [eval_mkConst H.strict he2, const_toCVal, h1, ofExt_neg H.L, ha]
          simpa [Sem.un] using hw
        · simp at h
    · simp at h
  · rename_i a
    simp only [pure_eq_ok, Option.some.injEq] at h; subst h
    exact neg_neg_sound a
  · simp at h

theorem rAbsolute_sound (H : Hyp S env cfg) {x e' : Expr} (h : rAbsolute cfg x = .ok (some e')) :
    Sound S env (.un .absolute x) e' := by
  unfold rAbsolute at h
  split at h
  · rename_i a
    simp only [pure_eq_ok, Option.some.injEq] at h; subst h
    exact abs_abs_sound a
  · rename_i v like
    split_ifs at h with hn
    · split at h
      · rename_i p hp
        simp only [bind_eq_ok, pure_eq_ok, Option.some.injEq] at h
        obtain ⟨u1, h1, e2, he2, rfl⟩ := h
        have h1 := failIf_ok h1
        simp only [H.strict, Bool.true_and, bne_eq_false_iff_eq] at h1
        intro w hw
        obtain ⟨a, ha, hw⟩ := eval_un hw
        simp only [eval] at ha
        rw [const_pnum hp] at ha
        have hnan : p.ext ≠ .nan := by
          intro hx; rw [hx] at ha; simp [Sem.ofExt] at ha
        rw [eval_mkConst H.strict he2, const_toCVal, h1, ofExt_abs H.L _ hnan, ha]
        simpa [Sem.un] using hw
      · simp at h
    · simp at h
  · simp at h

theorem rConstant_sound (H : Hyp S env cfg) {v : CVal} {like e' : Expr} (h : rConstant cfg v like = .ok (some e')) :
    Sound S env (.const v like) e' := by
  simp only [rConstant, bind_eq_ok] at h
  obtain ⟨o, _, h⟩ := h
  cases o with
  | none => simp at h
  | some nv =>
    simp only [bind_eq_ok, pure_eq_ok, Option.some.injEq] at h
    obtain ⟨u1, h1, e2, he2, rfl⟩ := h
    have h1 := failIf_ok h1
    simp only [H.strict, Bool.true_and, Bool.not_eq_false'] at h1
    intro w hw
    simp only [eval] at hw
    rw [eval_mkConst H.strict he2, ← hw]
    unfold constSame at h1
    cases v with
    | name s =>
      simp only at h1
      cases hwk : cfg.work with
      | none => simp [hwk] at h1
      | some t =>
        simp only [hwk] at h1
        cases hb : namedBits t s with
        | none => simp [hb] at h1
        | some b =>
          simp only [hb, Option.map_some, beq_iff_eq, Option.some.injEq] at h1
          subst h1
          simp only [Sem.const]
          rw [H.named t s b hwk hb]
          simp [mkFlt, CVal.ext?]
    | bool b =>
      simp only [Bool.and_eq_true, beq_iff_eq, bne_iff_ne, ne_eq] at h1
      exact const_real_eq h1.1.1.1 h1.1.1.2 h1.1.2
    | int b =>
      simp only [Bool.and_eq_true, beq_iff_eq, bne_iff_ne, ne_eq] at h1
      exact const_real_eq h1.1.1.1 h1.1.1.2 h1.1.2
    | flt t b =>
      simp only [Bool.and_eq_true, beq_iff_eq, bne_iff_ne, ne_eq] at h1
      exact const_real_eq h1.1.1.1 h1.1.1.2 h1.1.2
    | cplx t a b => simp [CVal.isReal] at h1
    | other d => simp [CVal.isReal] at h1

theorem evalFn_sound (H : Hyp S env cfg) {isSqrt : Bool} {v : CVal} {like e' : Expr} {p : PNum}
    (hp : v.pnum? = some p) (h : evalFn cfg isSqrt like p = .ok (some e')) :
    Sound S env (.un (if isSqrt then .sqrt else .square) (.const v like)) e' := by
  simp only [evalFn, bind_eq_ok] at h
  obtain ⟨o, _, h⟩ := h
  cases o with
  | none => simp at h
  | some rv =>
    simp only [bind_eq_ok, pure_eq_ok, Option.some.injEq] at h
    obtain ⟨u1, h1, u2, h2, e2, he2, rfl⟩ := h
    have h2 := failIf_ok h2
    simp only [H.strict, Bool.true_and, Bool.not_eq_false', Bool.and_eq_true] at h2
    obtain ⟨hreal, hex⟩ := h2
    intro w hw
    obtain ⟨a, ha, hw⟩ := eval_un hw
    simp only [eval] at ha
    unfold evalExact at hex
    split at hex
    · rename_i q s hq hs
      have hrep := guardRep_ok h1
      obtain ⟨rfl, _⟩ := const_rep_val H (v := p.toCVal) hrep (toCVal_ext p).2 ((toCVal_ext p).1.trans (by rw [hq]))
        (by rw [const_toCVal, ← const_pnum hp]; exact ha)
      rw [eval_mkConst H.strict he2, const_of_ext hreal hs]
      simp only [Sem.ofExt]
      cases isSqrt
      · simp only [Bool.false_eq_true, if_false, beq_iff_eq] at hex hw
        subst hex
        simp only [Sem.un] at hw
        simpa using hw
      · simp only [if_true, Bool.and_eq_true, beq_iff_eq, decide_eq_true_eq] at hex hw
        obtain ⟨hsq, hs0⟩ := hex
        simp only [Sem.un] at hw
        have hq0 : (0 : K) ≤ (q : K) := by
          rw [← hsq]; push_cast; exact mul_self_nonneg _
        rw [if_pos hq0] at hw
        have : S.sqrt (q : K) = (s : K) := by
          rw [← hsq]; push_cast
          exact H.L.sqrt_sq _ (by exact_mod_cast hs0)
        rw [this] at hw
        exact hw
    · simp at hex

theorem sqrt_zero' (L : S.Laws) : S.sqrt (0 : K) = 0 := by
  have := L.sqrt_sq 0 le_rfl
  simpa using this

theorem sqrt_one' (L : S.Laws) : S.sqrt (1 : K) = 1 := by
  have := L.sqrt_sq 1 zero_le_one
  simpa using this

theorem rSqrt_sound (H : Hyp S env cfg) {x e' : Expr} (h : rSqrt cfg x = .ok (some e')) :
    Sound S env (.un .sqrt x) e' := by
  unfold rSqrt at h
  split at h
  · rename_i v like
    split_ifs at h with hn h01
    · simp only [pure_eq_ok, Option.some.injEq] at h; subst h
      intro w hw
      obtain ⟨a, ha, hw⟩ := eval_un hw
      simp only [Bool.or_eq_true] at h01
      rcases h01 with h0 | h1
      · have := eq0_sound H.L hn (by simpa [eval] using ha)
        rw [h0] at this; simp only [ZeroFact] at this; subst this
        simp only [Sem.un, le_refl, if_true, sqrt_zero' H.L] at hw
        obtain ⟨_, rfl⟩ := arith_eq_some hw
        rw [ha, H.L.rnd_zero]
      · have := eq1_sound H.L hn h1 (by simpa [eval] using ha)
        subst this
        simp only [Sem.un, zero_le_one, if_true, sqrt_one' H.L] at hw
        obtain ⟨_, rfl⟩ := arith_eq_some hw
        rw [ha, H.L.rnd_one]
    · split at h
      · rename_i p hp
        exact evalFn_sound (isSqrt := true) H hp h
      · simp at h
    · simp at h
  · simp at h

theorem rSquare_sound (H : Hyp S env cfg) {x e' : Expr} (h : rSquare cfg x = .ok (some e')) :
    Sound S env (.un .square x) e' := by
  unfold rSquare at h
  split at h
  · rename_i v like
    split_ifs at h with hn
    · split at h
      · rename_i p hp
        exact evalFn_sound (isSqrt := false) H hp h
      · simp at h
    · simp at h
  · simp at h

theorem const_int (L : S.Laws) (n : Int) : S.const (.int n) = S.arith ((n : Rat) : K) := by
  simp [Sem.const, CVal.ext?, Sem.ofExt]

theorem rSign_sound (H : Hyp S env cfg) {x e' : Expr} (h : rSign cfg x = .ok (some e')) :
    Sound S env (.un .sign x) e' := by
  unfold rSign at h
  split at h
  · rename_i v like
    split at h
    · rename_i t b
      intro w hw
      obtain ⟨a, ha, hw⟩ := eval_un hw
      simp only [eval] at ha
      rw [const_of_ext (x := extOfBits t.fmt b) (by simp [CVal.isReal]) rfl] at ha
      simp only [Sem.un, Option.some.injEq] at hw
      subst hw
      have he0 : CVal.eq0 (.flt t b) = (extOfBits t.fmt b == ExtQ.fin 0) := by simp [CVal.eq0, extEqQ]
      rw [he0] at h
      generalize extOfBits t.fmt b = xx at ha h
      cases xx <;> simp only [Sem.ofExt] at ha
      · cases ha
      · cases ha
        have hb : (ExtQ.ninf == ExtQ.fin 0) = false := by simp
        simp only [hb, Bool.false_eq_true, if_false, bind_eq_ok, pure_eq_ok, Option.some.injEq, ExtQ.lt] at h
        obtain ⟨e2, he2, rfl⟩ := h
        rw [eval_mkConst H.strict he2, const_int H.L]
        simp only [Int.reduceNeg, Int.cast_neg, Int.cast_one, Rat.cast_neg, Rat.cast_one, Sem.arith, H.L.ok_neg, H.L.ok_one,
          if_true, H.L.rnd_neg_one, EV.sign]
      · rename_i q
        obtain ⟨hok, rfl⟩ := arith_eq_some ha
        by_cases hq : q = 0
        · subst hq
          simp only [beq_self_eq_true, if_true, bind_eq_ok, pure_eq_ok, Option.some.injEq] at h
          obtain ⟨e2, he2, rfl⟩ := h
          rw [eval_mkConst H.strict he2, const_int H.L]
          simp [Sem.arith, H.L.ok_zero, H.L.rnd_zero, EV.sign]
        · have hb : (ExtQ.fin q == ExtQ.fin 0) = false := by simp [hq]
          simp only [hb, Bool.false_eq_true, if_false, bind_eq_ok, pure_eq_ok, Option.some.injEq, ExtQ.lt] at h
          obtain ⟨e2, he2, rfl⟩ := h
          rw [eval_mkConst H.strict he2, const_int H.L]
          rcases lt_or_gt_of_ne hq with hneg | hpos
          · have hK : (q : K) < 0 := by exact_mod_cast hneg
            have hr := H.L.rnd_neg hok hK
            have hn : ¬ (0 : Rat) < q := not_lt.2 (le_of_lt hneg)
            simp only [hn, decide_false, Bool.false_eq_true, if_false, Int.reduceNeg, Int.cast_neg, Int.cast_one,
              Rat.cast_neg, Rat.cast_one, Sem.arith, H.L.ok_neg, H.L.ok_one, if_true, H.L.rnd_neg_one, EV.sign,
              ne_of_lt hr, not_lt.2 (le_of_lt hr)]
          · have hK : (0 : K) < (q : K) := by exact_mod_cast hpos
            have hr := H.L.rnd_pos hok hK
            simp only [hpos, decide_true, if_true, Int.cast_one, Rat.cast_one, Sem.arith, H.L.ok_one, H.L.rnd_one, EV.sign,
              ne_of_gt hr, hr, if_false]
      · cases ha
        have hb : (ExtQ.pinf == ExtQ.fin 0) = false := by simp
        simp only [hb, Bool.false_eq_true, if_false, bind_eq_ok, pure_eq_ok, Option.some.injEq, ExtQ.lt] at h
        obtain ⟨e2, he2, rfl⟩ := h
        rw [eval_mkConst H.strict he2, const_int H.L]
        simp [Sem.arith, H.L.ok_one, H.L.rnd_one, EV.sign]
    · simp at h
  · rename_i a
    simp only [pure_eq_ok, Option.some.injEq] at h; subst h
    exact sign_sign_sound a
  · simp at h

/-! ## `add`, `subtract`, `multiply` -/

theorem rAdd_sound (H : Hyp S env cfg) {x y e' : Expr} (h : rAdd cfg x y = .ok (some e')) :
    Sound S env (.bin .add x y) e' := by
  simp only [rAdd, bind_eq_ok] at h
  obtain ⟨o, ho, h⟩ := h
  cases o with
  | some r => simp only [pure_eq_ok, Option.some.injEq] at h; subst h; exact foldArith_sound (op := .add) H ho
  | none =>
    simp only at h
    split_ifs at h with h1 h2 <;> simp only [pure_eq_ok, Option.some.injEq] at h
    · subst h; exact add_zero_left_sound H h1
    · subst h; exact add_zero_right_sound H h2
    · cases h

theorem rSubtract_sound (H : Hyp S env cfg) {x y e' : Expr} (h : rSubtract cfg x y = .ok (some e')) :
    Sound S env (.bin .subtract x y) e' := by
  simp only [rSubtract, bind_eq_ok] at h
  obtain ⟨o, ho, h⟩ := h
  cases o with
  | some r => simp only [pure_eq_ok, Option.some.injEq] at h; subst h; exact foldArith_sound (op := .sub) H ho
  | none =>
    simp only at h
    split_ifs at h with h1 h2 <;> simp only [pure_eq_ok, Option.some.injEq] at h
    · subst h; exact sub_zero_left_sound H h1
    · subst h; exact sub_zero_right_sound H h2
    · cases h

theorem rMultiply_sound (H : Hyp S env cfg) {x y e' : Expr} (h : rMultiply cfg x y = .ok (some e')) :
    Sound S env (.bin .multiply x y) e' := by
  simp only [rMultiply, bind_eq_ok] at h
  obtain ⟨o, ho, h⟩ := h
  cases o with
  | some r => simp only [pure_eq_ok, Option.some.injEq] at h; subst h; exact foldArith_sound (op := .mul) H ho
  | none =>
    simp only at h
    split_ifs at h with h1 h2 <;> simp only [pure_eq_ok, Option.some.injEq] at h
    · subst h; exact mul_one_left_sound H h1
    · subst h; exact mul_one_right_sound H h2
    · cases h

/-! ## comparisons -/

theorem rowSound_keys {k1 k2 : Key} {row : Row} (h : rowSound ((k1, k2), row) = true) :
    (∃ c, keyClasses k1 = some c) ∧ (∃ c, keyClasses k2 = some c) := by
  simp only [rowSound] at h
  split at h
  · rename_i ci cj h1 h2; exact ⟨⟨ci, h1⟩, ⟨cj, h2⟩⟩
  · cases h

theorem ratKey_num {q : Rat} {k : Key} (h : ratKey q = some k) : ∃ n : Int, k = .num n ∧ q = (n : Rat) := by
  unfold ratKey at h
  split_ifs at h with hd
  cases h
  refine ⟨q.num, rfl, ?_⟩
  have hd' : q.den = 1 := by simpa using hd
  exact (Rat.den_eq_one_iff q).1 hd' |>.symm

/-- a numeric constant equal (Python `==`) to the integer key `n` has the value `n` -/
theorem keyOf_num {v : CVal} {n : Int} (hv : v.isReal = true) (h : keyOf v = some (.num n)) :
    v.ext? = some (.fin (n : Rat)) := by
  cases v <;> simp [CVal.isReal] at hv
  case bool b => cases b <;> simp [keyOf] at h <;> subst h <;> simp [CVal.ext?]
  case int m => simp [keyOf] at h; subst h; simp [CVal.ext?]
  case flt t b =>
    simp only [keyOf] at h
    simp only [CVal.ext?]
    generalize extOfBits t.fmt b = xx at h
    cases xx <;> simp at h
    rename_i q
    obtain ⟨m, hm, rfl⟩ := ratKey_num h
    cases hm; rfl

theorem keyOf_real_num {v : CVal} {k : Key} (hv : v.isReal = true) (h : keyOf v = some k) : ∃ n, k = .num n := by
  cases v <;> simp [CVal.isReal] at hv
  case bool b => simp [keyOf] at h; exact ⟨_, h.symm⟩
  case int m => simp [keyOf] at h; exact ⟨_, h.symm⟩
  case flt t b =>
    simp only [keyOf] at h
    generalize extOfBits t.fmt b = xx at h
    cases xx <;> simp at h
    obtain ⟨m, hm, _⟩ := ratKey_num h
    exact ⟨m, hm⟩

theorem keyOf_inKey (H : Hyp S env cfg) {v : CVal} {k : Key} {a : EV K} (hk : keyOf v = some k)
    (hc : ∃ c, keyClasses k = some c) (ha : S.const v = some a) : InKey H.nc k a := by
  obtain ⟨c, hc⟩ := hc
  cases k with
  | num n =>
    have hn : n = 0 ∨ n = 1 := by
      simp only [keyClasses] at hc
      by_cases h0 : n = 0
      · exact Or.inl h0
      · by_cases h1 : n = 1
        · exact Or.inr h1
        · simp [h0, h1] at hc
    have hreal : v.isReal = true := by
      cases v <;> simp [keyOf] at hk <;> simp [CVal.isReal]
      -- complex constants are undefined
      simp [Sem.const, CVal.ext?] at ha
    have hx := keyOf_num hreal hk
    rw [const_of_ext hreal hx] at ha
    simp only [Sem.ofExt] at ha
    obtain ⟨_, rfl⟩ := arith_eq_some ha
    simp only [InKey]
    rcases hn with rfl | rfl
    · simp [H.L.rnd_zero]
    · simp [H.L.rnd_one]
  | name s =>
    have hv : v = .name s := by
      cases v with
      | name s' => simp [keyOf] at hk; rw [hk]
      | bool b => simp [keyOf] at hk
      | int m => simp [keyOf] at hk
      | flt t b =>
        simp only [keyOf] at hk
        generalize extOfBits t.fmt b = xx at hk
        cases xx <;> simp at hk
        obtain ⟨_, h', _⟩ := ratKey_num hk; cases h'
      | cplx t re im => exfalso; simp [Sem.const, CVal.ext?] at ha
      | other d => simp [keyOf] at hk
    subst hv
    simp only [Sem.const] at ha
    simp only [keyClasses] at hc
    simp only [InKey]
    by_cases h1 : s = "positive"
    · subst h1; rw [H.L.named_unknown _ (by decide)] at ha; cases ha
    rw [if_neg h1] at hc ⊢
    by_cases h2 : s = "nonnegative"
    · subst h2; rw [H.L.named_unknown _ (by decide)] at ha; cases ha
    rw [if_neg h2] at hc ⊢
    by_cases h3 : s = "negative"
    · subst h3; rw [H.L.named_unknown _ (by decide)] at ha; cases ha
    rw [if_neg h3] at hc ⊢
    by_cases h4 : s = "nonpositive"
    · subst h4; rw [H.L.named_unknown _ (by decide)] at ha; cases ha
    rw [if_neg h4] at hc ⊢
    by_cases h5 : s = "finite"
    · subst h5; rw [H.L.named_unknown _ (by decide)] at ha; cases ha
    rw [if_neg h5] at hc ⊢
    by_cases h6 : s = "neginf"
    · subst h6; rw [if_pos rfl]; rw [H.L.named_neginf] at ha; exact (Option.some.inj ha).symm
    rw [if_neg h6] at hc ⊢
    by_cases h7 : s = "smallest_subnormal"
    · subst h7; rw [if_pos rfl]; rw [H.hnc.1] at ha; exact (Option.some.inj ha).symm
    rw [if_neg h7] at hc ⊢
    by_cases h8 : s = "smallest"
    · subst h8; rw [if_pos rfl]; rw [H.hnc.2.1] at ha; exact (Option.some.inj ha).symm
    rw [if_neg h8] at hc ⊢
    by_cases h9 : s = "eps"
    · subst h9; rw [if_pos rfl]; rw [H.hnc.2.2.1] at ha; exact (Option.some.inj ha).symm
    rw [if_neg h9] at hc ⊢
    by_cases h10 : s = "largest"
    · subst h10; rw [if_pos rfl]; rw [H.hnc.2.2.2] at ha; exact (Option.some.inj ha).symm
    rw [if_neg h10] at hc ⊢
    by_cases h11 : s = "posinf"
    · subst h11; rw [if_pos rfl]; rw [H.L.named_posinf] at ha; exact (Option.some.inj ha).symm
    rw [if_neg h11] at hc
    cases hc

theorem isProp_inKey (H : Hyp S env cfg) {p : Prop'} {e : Expr} {v : EV K} (hp : isProp p e = .ok (some true))
    (hv : eval S env e = some v) : InKey H.nc (.name p.name) v := by
  cases p <;> simp only [isProp] at hp <;> simp only [Prop'.name, InKey]
  · have := isPos_sound H.L env hv hp
    simpa [SignFact] using this
  · have := isNeg_sound H.L env hv hp
    simpa [SignFact] using this
  · have := isNonpos_sound H.L env hv hp
    simpa [SignFact] using this
  · have := isNonneg_sound H.L env hv hp
    simpa [SignFact] using this
  · have := isFinite_sound H.L env _ _ _ hv hp
    simpa [FinFact] using this

theorem entry_some {t : Table} {k : Key × Key} {i : Nat} {b : Bool} (h : entry t k i = some b) :
    ∃ row, (k, row) ∈ t ∧ (row[i]?).join = some b := by
  unfold entry at h
  split at h
  · rename_i row hrow
    exact ⟨row, lookup_mem hrow, h⟩
  · cases h

theorem scanConstAny_ok {vk : Option Key} {e : Expr} {i : Nat} {b : Bool} :
    ∀ {ps : List Prop'}, scanConstAny cfg vk e i ps = .ok (some b) →
      ∃ p k, vk = some k ∧ isProp p e = .ok (some true) ∧ entry cfg.T.ca (k, .name p.name) i = some b := by
  intro ps
  induction ps with
  | nil => intro h; simp [scanConstAny] at h
  | cons p ps ih =>
    intro h
    simp only [scanConstAny, bind_eq_ok] at h
    obtain ⟨c, hc, h⟩ := h
    cases c with
    | false => simp only [Bool.false_eq_true, if_false] at h; exact ih h
    | true =>
      simp only [if_true] at h
      cases vk with
      | none => simp only at h; exact ih h
      | some k =>
        simp only at h
        cases he : entry cfg.T.ca (k, .name p.name) i with
        | none => rw [he] at h; simp only at h; exact ih h
        | some b' =>
          rw [he] at h
          simp only [pure_eq_ok, Option.some.injEq] at h
          subst h
          exact ⟨p, k, rfl, tr_ok_true hc, he⟩

theorem scanAnyAny_ok {x y : Expr} {i : Nat} {b : Bool} :
    ∀ {ps : List (Prop' × Prop')}, scanAnyAny cfg x y i ps = .ok (some b) →
      ∃ p q, isProp p x = .ok (some true) ∧ isProp q y = .ok (some true) ∧
        entry cfg.T.aa (.name p.name, .name q.name) i = some b := by
  intro ps
  induction ps with
  | nil => intro h; simp [scanAnyAny] at h
  | cons pq ps ih =>
    obtain ⟨p, q⟩ := pq
    intro h
    simp only [scanAnyAny, bind_eq_ok] at h
    obtain ⟨c, hc, h⟩ := h
    cases c with
    | false => simp only [Bool.false_eq_true, if_false] at h; exact ih h
    | true =>
      simp only [if_true] at h
      simp only [andM, bind_eq_ok] at hc
      obtain ⟨c1, hc1, hc⟩ := hc
      cases c1 with
      | false => simp at hc
      | true =>
        simp only [if_true] at hc
        cases he : entry cfg.T.aa (.name p.name, .name q.name) i with
        | none => rw [he] at h; simp only at h; exact ih h
        | some b' =>
          rw [he] at h
          simp only [pure_eq_ok, Option.some.injEq] at h
          subst h
          exact ⟨p, q, tr_ok_true hc1, tr_ok_true hc, he⟩

/-- the column used when the constant is the right operand holds the swapped relation -/
theorem swap_rel (r : Rel) : ∃ r' : Rel, r'.index = r.swapIndex ∧ ∀ a b : EV K, r.holds a b = r'.holds b a := by
  cases r
  · exact ⟨.le, rfl, fun a b => rfl⟩
  · exact ⟨.lt, rfl, fun a b => rfl⟩
  · exact ⟨.ge, rfl, fun a b => rfl⟩
  · exact ⟨.gt, rfl, fun a b => rfl⟩
  · exact ⟨.eq, rfl, fun a b => by simp [Rel.holds, eq_comm]⟩
  · exact ⟨.ne, rfl, fun a b => by simp [Rel.holds, eq_comm]⟩

theorem compareFold_sound (H : Hyp S env cfg) {r : Rel} {x y : Expr} {b : Bool} {va vb : EV K}
    (h : compareFold cfg r x y = .ok (some b)) (hx : eval S env x = some va) (hy : eval S env y = some vb) :
    r.holds va vb = b := by
  unfold compareFold at h
  split at h
  · -- constant against constant
    rename_i xv xl yv yl
    simp only [eval] at hx hy
    simp only [bind_eq_ok] at h
    obtain ⟨o, ho, h⟩ := h
    cases o with
    | some b' =>
      simp only [pure_eq_ok, Option.some.injEq] at h
      subst h
      -- via the table
      split at ho
      · rename_i kx ky hkx hky
        split at ho
        · rename_i row hrow
          split at ho
          · rename_i b'' hb''
            simp only [pure_eq_ok, Option.some.injEq] at ho
            subst ho
            have hmem := lookup_mem hrow
            have hs := H.tcc _ hmem
            obtain ⟨c1, c2⟩ := rowSound_keys hs
            exact rowSound_correct H.nc hs hb'' (keyOf_inKey H hkx c1 hx) (keyOf_inKey H hky c2 hy)
          · simp at ho
        · simp at ho
      · simp at ho
    | none =>
      simp only at h
      split_ifs at h with hn
      · split at h
        · rename_i a c ha hc
          simp only [bind_eq_ok, pure_eq_ok, Option.some.injEq] at h
          obtain ⟨res, _, u1, h1, u2, h2, u3, h3, u4, h4, rfl⟩ := h
          have h4 := failIf_ok h4
          simp only [H.strict, Bool.true_and, bne_eq_false_iff_eq] at h4
          rw [h4]
          exact (extK_rel r (const_extK H ha (guardRep_ok h1) hx) (const_extK H hc (guardRep_ok h2) hy)).symm
        · simp at h
      · simp at h
  · -- constant against any
    rename_i xv xl hny
    simp only [eval] at hx
    split_ifs at h with hn
    · obtain ⟨p, k, hk, hp, he⟩ := scanConstAny_ok h
      obtain ⟨row, hmem, hrow⟩ := entry_some he
      have hreal : xv.isReal = true ∨ ∃ t re im, xv = .cplx t re im := by
        cases xv <;> simp [CVal.isNumber] at hn <;> simp [CVal.isReal]
      rcases hreal with hreal | ⟨t, re, im, rfl⟩
      · obtain ⟨n, rfl⟩ := keyOf_real_num hreal hk
        have hs := H.tca _ hmem ⟨n, rfl⟩
        obtain ⟨c1, c2⟩ := rowSound_keys hs
        exact rowSound_correct H.nc hs hrow (keyOf_inKey H hk c1 hx) (isProp_inKey H hp hy)
      · simp [Sem.const, CVal.ext?] at hx
    · simp at h
  · -- any against constant
    rename_i yv yl hnx
    simp only [eval] at hy
    split_ifs at h with hn
    · obtain ⟨p, k, hk, hp, he⟩ := scanConstAny_ok h
      obtain ⟨row, hmem, hrow⟩ := entry_some he
      obtain ⟨r', hr', hsw⟩ := swap_rel (K := K) r
      rw [← hr'] at hrow
      have hreal : yv.isReal = true ∨ ∃ t re im, yv = .cplx t re im := by
        cases yv <;> simp [CVal.isNumber] at hn <;> simp [CVal.isReal]
      rcases hreal with hreal | ⟨t, re, im, rfl⟩
      · obtain ⟨n, rfl⟩ := keyOf_real_num hreal hk
        have hs := H.tca _ hmem ⟨n, rfl⟩
        obtain ⟨c1, c2⟩ := rowSound_keys hs
        rw [hsw]
        exact rowSound_correct H.nc hs hrow (keyOf_inKey H hk c1 hy) (isProp_inKey H hp hx)
      · simp [Sem.const, CVal.ext?] at hy
    · simp at h
  · -- any against any
    obtain ⟨p, q, hp, hq, he⟩ := scanAnyAny_ok h
    obtain ⟨row, hmem, hrow⟩ := entry_some he
    have hs := H.taa _ hmem
    exact rowSound_correct H.nc hs hrow (isProp_inKey H hp hx) (isProp_inKey H hq hy)

theorem eval_rel {r : Rel} {x y : Expr} {v : EV K} (h : eval S env (.bin r.kind x y) = some v) :
    ∃ a b, eval S env x = some a ∧ eval S env y = some b ∧ v = EV.ofBool (r.holds a b) := by
  obtain ⟨a, b, ha, hb, hv⟩ := eval_bin h
  rw [bin_rel] at hv
  exact ⟨a, b, ha, hb, (Option.some.inj hv).symm⟩

theorem eval_rel_of (r : Rel) {x y : Expr} {a b : EV K} (ha : eval S env x = some a) (hb : eval S env y = some b) :
    eval S env (.bin r.kind x y) = some (EV.ofBool (r.holds a b)) := by
  rw [eval_bin_of ha hb, bin_rel]

theorem holds_refl (r : Rel) (a : EV K) : r.holds a a = r.refl := by
  cases r <;> simp [Rel.holds, Rel.refl, EV.le]

theorem distribute_sound (H : Hyp S env cfg) {r : Rel} {flip : Bool} {cond a b other e' : Expr} {cb : Bool} {va vb vo : EV K}
    (h : distribute cfg r flip cond a b other = .ok e')
    (hc : eval S env cond = some (EV.ofBool cb)) (ha : eval S env a = some va) (hb : eval S env b = some vb)
    (ho : eval S env other = some vo) :
    eval S env e' = some (EV.ofBool (if flip then r.holds vo (if cb then va else vb) else r.holds (if cb then va else vb) vo)) := by
  simp only [distribute, bind_eq_ok, pure_eq_ok] at h
  obtain ⟨nc, hnc, l, hl, rr, hrr, rfl⟩ := h
  have hnc' := tryNot_eval H hnc hc
  cases flip
  · simp only [Bool.false_eq_true, if_false] at hl hrr ⊢
    have h1 := tryAnd_eval H hl hc (eval_rel_of r ha ho)
    have h2 := tryAnd_eval H hrr hnc' (eval_rel_of r hb ho)
    rw [eval_or_of h1 h2]
    cases cb <;> simp
  · simp only [if_true] at hl hrr ⊢
    have h1 := tryAnd_eval H hl hc (eval_rel_of r ho ha)
    have h2 := tryAnd_eval H hrr hnc' (eval_rel_of r ho hb)
    rw [eval_or_of h1 h2]
    cases cb <;> simp

theorem holds_comm_eq (a b : EV K) : Rel.eq.holds a b = Rel.eq.holds b a := by simp [Rel.holds, eq_comm]
theorem holds_comm_ne (a b : EV K) : Rel.ne.holds a b = Rel.ne.holds b a := by simp [Rel.holds, eq_comm]

theorem rCompare_sound (H : Hyp S env cfg) {r : Rel} {x y e' : Expr} (h : rCompare cfg r x y = .ok (some e')) :
    Sound S env (.bin r.kind x y) e' := by
  intro v hv
  obtain ⟨a, b, ha, hb, rfl⟩ := eval_rel hv
  obtain ⟨m, hm, h⟩ := firstSome_ok h
  simp only [List.mem_cons, List.mem_singleton, List.not_mem_nil, or_false] at hm
  rcases hm with rfl | rfl | rfl | rfl | rfl
  · simp only [bind_eq_ok, pure_eq_ok, Option.map_eq_some_iff] at h
    obtain ⟨o, ho, c, rfl, rfl⟩ := h
    rw [eval_boolConst H.L, compareFold_sound H ho ha hb]
  · simp only [pure_eq_ok] at h
    split_ifs at h with he
    cases h
    have : x = y := by simpa using he
    subst this
    rw [ha] at hb; cases hb
    rw [eval_boolConst H.L, holds_refl]
  · split at h
    · rename_i cond p q _
      simp only [bind_eq_ok, pure_eq_ok, Option.some.injEq] at h
      obtain ⟨e2, he2, rfl⟩ := h
      obtain ⟨vc, va, vb, cb, hc, hp, hq, hcb, rfl⟩ := eval_select ha
      have hc' : eval S env cond = some (EV.ofBool cb) := by rw [hc, EV.toBool_eq hcb]
      have := distribute_sound H he2 hc' hp hq hb
      simpa using this
    · simp at h
  · split at h
    · rename_i cond p q _
      simp only [bind_eq_ok, pure_eq_ok, Option.some.injEq] at h
      obtain ⟨e2, he2, rfl⟩ := h
      obtain ⟨vc, va, vb, cb, hc, hp, hq, hcb, rfl⟩ := eval_select hb
      have hc' : eval S env cond = some (EV.ofBool cb) := by rw [hc, EV.toBool_eq hcb]
      have := distribute_sound H he2 hc' hp hq ha
      simpa using this
    · simp at h
  · cases r <;> simp only [pure_eq_ok] at h <;> try (cases h)
    all_goals
      simp only [bind_eq_ok] at h
      obtain ⟨c, _, h⟩ := h
      cases c <;> simp only [Bool.false_eq_true, if_false, if_true, pure_eq_ok, Option.some.injEq] at h <;> try (cases h)
    · rw [eval_rel_of .eq hb ha, holds_comm_eq]
    · rw [eval_rel_of .ne hb ha, holds_comm_ne]

/-! ## `select` -/

theorem selectInner_sound (H : Hyp S env cfg) {cond x y e' : Expr} {cb : Bool} {vx vy : EV K}
    (h : selectInner cfg cond x y = .ok (some e'))
    (hc : eval S env cond = some (EV.ofBool cb)) (hx : eval S env x = some vx) (hy : eval S env y = some vy) :
    eval S env e' = some (if cb then vx else vy) := by
  unfold selectInner at h
  split at h
  · rename_i cond1 a b
    obtain ⟨vc1, va, vb, cb1, hc1, ha, hb, hcb1, rfl⟩ := eval_select hx
    have hc1' : eval S env cond1 = some (EV.ofBool cb1) := by rw [hc1, EV.toBool_eq hcb1]
    split_ifs at h with h1 h2
    · simp only [pure_eq_ok, Option.some.injEq] at h; subst h
      have : b = y := by simpa using h1
      subst this
      rw [hb] at hy; cases hy
      rw [eval_select_of (eval_and_of hc hc1') ha hb]
      cases cb <;> cases cb1 <;> simp
    · simp only [bind_eq_ok, pure_eq_ok, Option.some.injEq] at h
      obtain ⟨n1, hn1, c, hcc, rfl⟩ := h
      have : a = y := by simpa using h2
      subst this
      rw [ha] at hy; cases hy
      have hn := tryNot_eval H hn1 hc1'
      have hcv := tryAnd_eval H hcc hc hn
      rw [eval_select_of hcv hb ha]
      cases cb <;> cases cb1 <;> simp
    · simp at h
  · simp at h

theorem selectNested_sound (H : Hyp S env cfg) {cond x y e' : Expr} {cb : Bool} {vx vy : EV K}
    (h : selectNested cfg cond x y = .ok (some e'))
    (hc : eval S env cond = some (EV.ofBool cb)) (hx : eval S env x = some vx) (hy : eval S env y = some vy) :
    eval S env e' = some (if cb then vx else vy) := by
  unfold selectNested at h
  split at h
  · simp only [bind_eq_ok] at h
    obtain ⟨nc, hnc, h⟩ := h
    have := selectInner_sound H h (tryNot_eval H hnc hc) hy hx
    rw [this]; cases cb <;> simp
  · exact selectInner_sound H h hc hx hy

theorem rSelect_sound (H : Hyp S env cfg) {cond x y e' : Expr} (h : rSelect cfg cond x y = .ok (some e')) :
    Sound S env (.select cond x y) e' := by
  intro v hv
  obtain ⟨vc, vx, vy, cb, hc, hx, hy, hcb, rfl⟩ := eval_select hv
  have hc' : eval S env cond = some (EV.ofBool cb) := by rw [hc, EV.toBool_eq hcb]
  unfold rSelect at h
  split at h
  · rename_i b hb
    simp only [pure_eq_ok, Option.some.injEq] at h; subst h
    have := constBool_eval (env := env) H.L hb
    rw [hc'] at this
    have := ofBool_inj (Option.some.inj this); subst this
    cases cb <;> simp [hx, hy]
  · split_ifs at h with hxy
    · simp only [pure_eq_ok, Option.some.injEq] at h; subst h
      have : x = y := by simpa using hxy
      subst this
      rw [hx] at hy; cases hy
      rw [hx]; cases cb <;> simp
    · split at h
      · rename_i p q _
        split_ifs at h with he
        · simp only [pure_eq_ok, Option.some.injEq] at h; subst h
          simp only [Bool.and_eq_true, beq_iff_eq] at he
          obtain ⟨rfl, rfl⟩ := he
          obtain ⟨a, b, ha, hb, hvv⟩ := eval_rel (r := .eq) hc'
          rw [hx] at ha; rw [hy] at hb; cases ha; cases hb
          have := ofBool_inj hvv
          rw [hy]
          cases cb
          · simp
          · have : vx = vy := by simpa [Rel.holds] using this.symm
            simp [this]
        · exact selectNested_sound H h hc' hx hy
      · rename_i p q _
        split_ifs at h with he
        · simp only [pure_eq_ok, Option.some.injEq] at h; subst h
          simp only [Bool.and_eq_true, beq_iff_eq] at he
          obtain ⟨rfl, rfl⟩ := he
          obtain ⟨a, b, ha, hb, hvv⟩ := eval_rel (r := .ne) hc'
          rw [hx] at ha; rw [hy] at hb; cases ha; cases hb
          have := ofBool_inj hvv
          rw [hx]
          cases cb
          · have : vx = vy := by simpa [Rel.holds] using this.symm
            simp [this]
          · simp
        · simp only [pure_eq_ok, Option.some.injEq] at h; subst h
          obtain ⟨a, b, ha, hb, hvv⟩ := eval_rel (r := .ne) hc'
          have := ofBool_inj hvv
          have e1 : eval S env (Expr.bin K2.eq p q) = some (EV.ofBool (Rel.eq.holds a b)) := eval_rel_of .eq ha hb
          rw [eval_select_of e1 hy hx]
          rw [← holds_not_ne, ← this]
          cases cb <;> simp
      · rename_i p q _
        simp only [pure_eq_ok, Option.some.injEq] at h; subst h
        obtain ⟨a, b, ha, hb, hvv⟩ := eval_rel (r := .ge) hc'
        have := ofBool_inj hvv
        have e1 : eval S env (Expr.bin K2.lt p q) = some (EV.ofBool (Rel.lt.holds a b)) := eval_rel_of .lt ha hb
        rw [eval_select_of e1 hy hx]
        rw [← holds_not_ge, ← this]
        cases cb <;> simp
      · rename_i p q _
        simp only [pure_eq_ok, Option.some.injEq] at h; subst h
        obtain ⟨a, b, ha, hb, hvv⟩ := eval_rel (r := .gt) hc'
        have := ofBool_inj hvv
        have e1 : eval S env (Expr.bin K2.le p q) = some (EV.ofBool (Rel.le.holds a b)) := eval_rel_of .le ha hb
        rw [eval_select_of e1 hy hx]
        rw [← holds_not_gt, ← this]
        cases cb <;> simp
      · exact selectNested_sound H h hc' hx hy

/-! ## the dispatcher, the per-node loop and the traversal -/

theorem undefined_sound {e e' : Expr} (h : eval S env e = none) : Sound S env e e' := by
  intro v hv; rw [h] at hv; cases hv

theorem rule_sound (H : Hyp S env cfg) {e e' : Expr} (h : rule cfg e = .ok (some e')) : Sound S env e e' := by
  cases e with
  | sym n t => simp [rule] at h
  | const v l => exact rConstant_sound H h
  | select c x y => exact rSelect_sound H h
  | un k x =>
    cases k <;> simp only [rule] at h
    case negative => exact rNegative_sound H h
    case absolute => exact rAbsolute_sound H h
    case sqrt => exact rSqrt_sound H h
    case square => exact rSquare_sound H h
    case sign => exact rSign_sound H h
    case logical_not => exact rLogicalNot_sound H h
    case upcast => exact rUpcast_sound H h
    case downcast => exact rDowncast_sound H h
    case conjugate => exact undefined_sound (by simp [eval, Sem.un])
    case real => exact undefined_sound (by simp [eval, Sem.un])
    case imag => exact undefined_sound (by simp [eval, Sem.un])
    case log => exact rLog_sound H (Or.inl rfl) h
    case log10 => exact rLog_sound H (Or.inr (Or.inl rfl)) h
    case log2 => exact rLog_sound H (Or.inr (Or.inr rfl)) h
    case log1p => exact rLog1p_sound H h
    all_goals simp at h
  | bin k x y =>
    cases k <;> simp only [rule] at h
    case add => exact rAdd_sound H h
    case subtract => exact rSubtract_sound H h
    case multiply => exact rMultiply_sound H h
    case divide => exact rDivide_sound H h
    case minimum => exact foldMinMax_sound (isMin := true) H h
    case maximum => exact foldMinMax_sound (isMin := false) H h
    case logical_and => exact rLogicalAnd_sound H h
    case logical_or => exact rLogicalOr_sound H h
    case ge => exact rCompare_sound (r := .ge) H h
    case gt => exact rCompare_sound (r := .gt) H h
    case le => exact rCompare_sound (r := .le) H h
    case lt => exact rCompare_sound (r := .lt) H h
    case eq => exact rCompare_sound (r := .eq) H h
    case ne => exact rCompare_sound (r := .ne) H h
    all_goals simp at h

theorem tryRewrite_sound (H : Hyp S env cfg) {e e' : Expr} (h : tryRewrite cfg e = .ok e') : Sound S env e e' := by
  simp only [tryRewrite, bind_eq_ok] at h
  obtain ⟨o, ho, h⟩ := h
  cases o with
  | some n => simp only [pure_eq_ok] at h; subst h; exact rule_sound H ho
  | none => simp only [pure_eq_ok] at h; subst h; exact Sound.refl _

theorem call_sound (H : Hyp S env cfg) {e e' : Expr} (h : call cfg e = .ok (some e')) : Sound S env e e' := by
  simp only [call, bind_eq_ok] at h
  obtain ⟨o, ho, h⟩ := h
  cases o with
  | some r =>
    simp only [bind_eq_ok, pure_eq_ok, Option.some.injEq] at h
    obtain ⟨e2, he2, rfl⟩ := h
    exact (rule_sound H ho).trans (tryRewrite_sound H he2)
  | none => simp at h

theorem rewriteLoop_sound (H : Hyp S env cfg) :
    ∀ (fuel : Nat) (cur : Expr) (last : Option Expr) (e0 e' : Expr), Sound S env e0 cur →
      (∀ l, last = some l → Sound S env e0 l) →
      rewriteLoop cfg fuel cur last = .ok (some e') → Sound S env e0 e' := by
  intro fuel
  induction fuel with
  | zero => intro cur last e0 e' _ _ h; simp [rewriteLoop] at h
  | succ n ih =>
    intro cur last e0 e' hcur hlast h
    simp only [rewriteLoop, bind_eq_ok] at h
    obtain ⟨o, ho, h⟩ := h
    cases o with
    | some r =>
      simp only at h
      have hr := hcur.trans (call_sound H ho)
      exact ih r (some r) e0 e' hr (fun l hl => by cases hl; exact hr) h
    | none =>
      simp only [pure_eq_ok] at h
      exact hlast _ h

theorem modifier_sound (H : Hyp S env cfg) {fuel : Nat} {e e' : Expr} (h : modifier cfg fuel e = .ok e') :
    Sound S env e e' := by
  simp only [modifier, bind_eq_ok] at h
  obtain ⟨o, ho, h⟩ := h
  cases o with
  | some r =>
    simp only [pure_eq_ok] at h; subst h
    exact rewriteLoop_sound H fuel e none e r (Sound.refl _) (fun l hl => by cases hl) ho
  | none => simp only [pure_eq_ok] at h; subst h; exact Sound.refl _

theorem sound_un {k : K1} {x x' : Expr} (h : Sound S env x x') : Sound S env (.un k x) (.un k x') := by
  intro v hv
  obtain ⟨a, ha, hv⟩ := eval_un hv
  rw [eval_un_of (h a ha)]; exact hv

theorem sound_bin {k : K2} {x x' y y' : Expr} (hx : Sound S env x x') (hy : Sound S env y y') :
    Sound S env (.bin k x y) (.bin k x' y') := by
  intro v hv
  obtain ⟨a, b, ha, hb, hv⟩ := eval_bin hv
  rw [eval_bin_of (hx a ha) (hy b hb)]; exact hv

theorem sound_select {c c' x x' y y' : Expr} (hc : Sound S env c c') (hx : Sound S env x x') (hy : Sound S env y y') :
    Sound S env (.select c x y) (.select c' x' y') := by
  intro v hv
  obtain ⟨vc, a, b, cb, hcc, ha, hb, hcb, rfl⟩ := eval_select hv
  simp [eval, hc vc hcc, hx a ha, hy b hb, hcb]

/-- **soundness of the whole rewriting pass** (`Expr.rewrite(rewrite)`, bottom-up, per-node fixpoint) -/
theorem rewriteDeep_sound (H : Hyp S env cfg) (fuel : Nat) :
    ∀ (e e' : Expr), rewriteDeep cfg fuel e = .ok e' → Sound S env e e' := by
  intro e
  induction e with
  | sym n t => intro e' h; exact modifier_sound H (by simpa [rewriteDeep] using h)
  | const v l ih =>
    intro e' h
    simp only [rewriteDeep, bind_eq_ok] at h
    obtain ⟨l', _, h⟩ := h
    by_cases hl : (l' == l) = true
    · simp only [hl, if_true, bind_eq_ok, pure_eq_ok] at h
      obtain ⟨e2, he2, h⟩ := h
      subst he2
      exact modifier_sound H h
    · simp only [hl, Bool.false_eq_true, if_false, bind_eq_ok] at h
      obtain ⟨e2, he2, h⟩ := h
      refine Sound.trans ?_ (modifier_sound H h)
      intro w hw
      rw [eval_mkConst H.strict he2]; simpa [eval] using hw
  | un k x ih =>
    intro e' h
    simp only [rewriteDeep, bind_eq_ok] at h
    obtain ⟨x', hx', h⟩ := h
    exact (sound_un (ih x' hx')).trans (modifier_sound H h)
  | bin k x y ihx ihy =>
    intro e' h
    simp only [rewriteDeep, bind_eq_ok] at h
    obtain ⟨x', hx', y', hy', h⟩ := h
    exact (sound_bin (ihx x' hx') (ihy y' hy')).trans (modifier_sound H h)
  | select c x y ihc ihx ihy =>
    intro e' h
    simp only [rewriteDeep, bind_eq_ok] at h
    obtain ⟨c', hc', x', hx', y', hy', h⟩ := h
    exact (sound_select (ihc c' hc') (ihx x' hx') (ihy y' hy')).trans (modifier_sound H h)

end FAVerif.Rewriter
