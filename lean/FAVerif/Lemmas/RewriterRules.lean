/-
C04 — soundness of the rule methods of the rewriter model: if a rule turns `e` into `e'` (in
strict mode) then `e'` is defined wherever `e` is and has the same value.
-/
import FAVerif.Lemmas.RewriterInfer
import FAVerif.Lemmas.RewriterTables

set_option linter.unusedSectionVars false
set_option linter.unusedVariables false
set_option linter.unusedSimpArgs false

namespace FAVerif.Rewriter
open FAVerif.SignAbs

variable {K : Type} [Field K] [LinearOrder K] [IsStrictOrderedRing K]
variable {S : Sem K} {env : Env K} {cfg : Cfg}

/-- `e'` is defined wherever `e` is, with the same value -/
def Sound (S : Sem K) (env : Env K) (e e' : Expr) : Prop :=
  ∀ v, eval S env e = some v → eval S env e' = some v

theorem Sound.refl (e : Expr) : Sound S env e e := fun _ h => h
theorem Sound.trans {a b c : Expr} (h1 : Sound S env a b) (h2 : Sound S env b c) : Sound S env a c :=
  fun v h => h2 v (h1 v h)

/-- the hypotheses under which the rules are sound -/
structure Hyp (S : Sem K) (env : Env K) (cfg : Cfg) where
  L : S.Laws
  henv : EnvOK S env
  strict : cfg.strict = true
  /-- constants that take part in folds are representable (`fp` mode: by the guard; exact
  arithmetic: every value is) -/
  rep : ∀ (v : CVal) (q : Rat), repGuard cfg v = true → v.ext? = some (.fin q) → S.rnd (q : K) = (q : K)
  ud : cfg.strictUD = true ∨ ∀ a : K, S.rnd a = a → S.up (S.down a) = a
  named : ∀ t s b, cfg.work = some t → namedBits t s = some b → S.named s = S.ofExt (extOfBits t.fmt b)
  nc : NC K
  hnc : S.named "smallest_subnormal" = some (.fin nc.a) ∧ S.named "smallest" = some (.fin nc.b) ∧
        S.named "eps" = some (.fin nc.c) ∧ S.named "largest" = some (.fin nc.d)
  tcc : ∀ row ∈ cfg.T.cc, rowSound row = true
  tca : ∀ row ∈ cfg.T.ca, (∃ n, row.1.1 = Key.num n) → rowSound row = true
  taa : ∀ row ∈ cfg.T.aa, rowSound row = true

/-! ## evaluation lemmas -/

theorem eval_un {k : K1} {x : Expr} {v : EV K} (h : eval S env (.un k x) = some v) :
    ∃ a, eval S env x = some a ∧ S.un k a = some v := by
  simpa only [eval, Option.bind_eq_bind, Option.bind_eq_some_iff] using h

theorem eval_bin {k : K2} {x y : Expr} {v : EV K} (h : eval S env (.bin k x y) = some v) :
    ∃ a b, eval S env x = some a ∧ eval S env y = some b ∧ S.bin k a b = some v := by
  simp only [eval, Option.bind_eq_bind, Option.bind_eq_some_iff] at h
  obtain ⟨a, ha, b, hb, h⟩ := h
  exact ⟨a, b, ha, hb, h⟩

theorem eval_select {c x y : Expr} {v : EV K} (h : eval S env (.select c x y) = some v) :
    ∃ vc a b cb, eval S env c = some vc ∧ eval S env x = some a ∧ eval S env y = some b ∧
      vc.toBool? = some cb ∧ v = (if cb then a else b) := by
  simp only [eval, Option.bind_eq_bind, Option.bind_eq_some_iff, Option.pure_def, Option.some.injEq] at h
  obtain ⟨vc, hc, a, ha, b, hb, cb, hcb, rfl⟩ := h
  exact ⟨vc, a, b, cb, hc, ha, hb, hcb, rfl⟩

theorem eval_un_of {k : K1} {x : Expr} {a : EV K} (ha : eval S env x = some a) :
    eval S env (.un k x) = S.un k a := by
  simp [eval, ha]

theorem eval_bin_of {k : K2} {x y : Expr} {a b : EV K} (ha : eval S env x = some a) (hb : eval S env y = some b) :
    eval S env (.bin k x y) = S.bin k a b := by
  simp [eval, ha, hb]

theorem eval_select_of {c x y : Expr} {a b : EV K} {cb : Bool} (hc : eval S env c = some (EV.ofBool cb))
    (ha : eval S env x = some a) (hb : eval S env y = some b) :
    eval S env (.select c x y) = some (if cb then a else b) := by
  simp [eval, hc, ha, hb]

theorem const_bool (L : S.Laws) (b : Bool) : S.const (.bool b) = some (EV.ofBool b) := by
  cases b <;> simp [Sem.const, CVal.ext?, Sem.ofExt, Sem.arith, L.ok_zero, L.ok_one, L.rnd_zero, L.rnd_one, EV.ofBool]

theorem eval_boolConst (L : S.Laws) (b : Bool) : eval S env (boolConst b) = some (EV.ofBool b) := by
  simp only [boolConst, eval]; exact const_bool L b

theorem const_canon {v : CVal} (h : (canonVal v).ext? = v.ext?) : S.const (canonVal v) = S.const v := by
  cases v <;> simp only [canonVal] at h ⊢
  case flt t b => simp only [Sem.const, h]
  case cplx t re im => simp [Sem.const, CVal.ext?]

theorem failIf_ok {c : Bool} {e : Err} {u : Unit} (h : failIf c e = .ok u) : c = false := by
  unfold failIf at h
  by_cases hc : c = true
  · simp [hc] at h
  · simpa using hc

/-- closes `some (ofBool f) = some (ofBool g)` for Boolean-equal `f`, `g` -/
macro "boolfin" : tactic =>
  `(tactic| first | rfl | (apply congrArg some; apply congrArg EV.ofBool; grind))

theorem eval_mkConst (hs : cfg.strict = true) {v : CVal} {l e' : Expr} (h : mkConst cfg v l = .ok e') :
    eval S env e' = S.const v := by
  simp only [mkConst, mkConstS, hs, Bool.true_and] at h
  by_cases hg : ((canonVal v).ext? != v.ext?) = true
  · simp [hg] at h
  · simp only [hg, if_false, Bool.false_eq_true] at h
    simp only [bind_eq_ok, pure_eq_ok] at h
    obtain ⟨l', _, h⟩ := h
    subst h
    simp only [eval]
    apply const_canon
    simpa using hg

/-- relational kinds evaluate to the truth value of the relation -/
theorem bin_rel (r : Rel) (a b : EV K) : S.bin r.kind a b = some (EV.ofBool (r.holds a b)) := by
  cases r <;> rfl
theorem bin_eq (a b : EV K) : S.bin .eq a b = some (EV.ofBool (Rel.eq.holds a b)) := rfl
theorem bin_ne (a b : EV K) : S.bin .ne a b = some (EV.ofBool (Rel.ne.holds a b)) := rfl
theorem bin_lt (a b : EV K) : S.bin .lt a b = some (EV.ofBool (Rel.lt.holds a b)) := rfl
theorem bin_le (a b : EV K) : S.bin .le a b = some (EV.ofBool (Rel.le.holds a b)) := rfl
theorem bin_gt (a b : EV K) : S.bin .gt a b = some (EV.ofBool (Rel.gt.holds a b)) := rfl
theorem bin_ge (a b : EV K) : S.bin .ge a b = some (EV.ofBool (Rel.ge.holds a b)) := rfl

theorem boolOp_ofBool (f : Bool → Bool → Bool) (x y : Bool) :
    boolOp f (EV.ofBool x : EV K) (EV.ofBool y) = some (EV.ofBool (f x y)) := by
  simp [boolOp]

theorem boolOp_some {f : Bool → Bool → Bool} {a b v : EV K} (h : boolOp f a b = some v) :
    ∃ x y, a = EV.ofBool x ∧ b = EV.ofBool y ∧ v = EV.ofBool (f x y) := by
  simp only [boolOp, Option.bind_eq_bind, Option.bind_eq_some_iff, Option.pure_def, Option.some.injEq] at h
  obtain ⟨x, hx, y, hy, rfl⟩ := h
  exact ⟨x, y, EV.toBool_eq hx, EV.toBool_eq hy, rfl⟩

theorem un_not_some {a v : EV K} (h : S.un .logical_not a = some v) : ∃ x, a = EV.ofBool x ∧ v = EV.ofBool (!x) := by
  simp only [Sem.un, Option.map_eq_some_iff] at h
  obtain ⟨x, hx, rfl⟩ := h
  exact ⟨x, EV.toBool_eq hx, rfl⟩

theorem un_not_ofBool (x : Bool) : S.un .logical_not (EV.ofBool x : EV K) = some (EV.ofBool (!x)) := by
  simp [Sem.un]

theorem constBool_eval (L : S.Laws) {x : Expr} {b : Bool} (h : constBool? x = some b) :
    eval S env x = some (EV.ofBool b) := by
  cases x <;> simp [constBool?] at h
  rename_i v l
  cases v <;> simp at h
  subst h
  simp only [eval]; exact const_bool L _

/-! ### relations on extended values -/

theorem holds_not_eq (a b : EV K) : (!Rel.eq.holds a b) = Rel.ne.holds a b := rfl
theorem holds_not_ne (a b : EV K) : (!Rel.ne.holds a b) = Rel.eq.holds a b := by simp [Rel.holds]
theorem holds_not_lt (a b : EV K) : (!Rel.lt.holds a b) = Rel.le.holds b a := by
  by_cases h : a.lt b <;> simp [Rel.holds, EV.le, h]
theorem holds_not_le (a b : EV K) : (!Rel.le.holds a b) = Rel.lt.holds b a := by
  by_cases h : b.lt a <;> simp [Rel.holds, EV.le, h]
theorem holds_not_gt (a b : EV K) : (!Rel.gt.holds a b) = Rel.le.holds a b := by
  by_cases h : b.lt a <;> simp [Rel.holds, EV.le, h]
theorem holds_not_ge (a b : EV K) : (!Rel.ge.holds a b) = Rel.lt.holds a b := by
  by_cases h : a.lt b <;> simp [Rel.holds, EV.le, h]

/-! ## `logical_not` -/

theorem rLogicalNot_sound (H : Hyp S env cfg) {x e' : Expr} (h : rLogicalNot cfg x = .ok (some e')) :
    Sound S env (.un .logical_not x) e' := by
  intro v hv
  obtain ⟨a, ha, hva⟩ := eval_un hv
  obtain ⟨xb, rfl, rfl⟩ := un_not_some hva
  unfold rLogicalNot at h
  split at h
  · -- boolean constant
    rename_i b like
    simp only [bind_eq_ok, pure_eq_ok, Option.some.injEq] at h
    obtain ⟨c, hc, rfl⟩ := h
    rw [eval_mkConst H.strict hc, const_bool H.L]
    simp only [eval, const_bool H.L, Option.some.injEq] at ha
    have : b = xb := by cases b <;> cases xb <;> simp_all [EV.ofBool]
    rw [this]
  all_goals
    simp only [pure_eq_ok, Option.some.injEq] at h
    try subst h
  · rename_i p q
    obtain ⟨u, w, hu, hw, hb⟩ := eval_bin ha
    rw [bin_eq] at hb
    rw [eval_bin_of hu hw, bin_ne]
    have := Option.some.inj hb
    cases hx : xb <;> simp_all [EV.ofBool, Rel.holds]
  · rename_i p q
    obtain ⟨u, w, hu, hw, hb⟩ := eval_bin ha
    rw [bin_ne] at hb
    rw [eval_bin_of hu hw, bin_eq]
    have := Option.some.inj hb
    cases hx : xb <;> simp_all [EV.ofBool, Rel.holds]
  · rename_i p q
    obtain ⟨u, w, hu, hw, hb⟩ := eval_bin ha
    rw [bin_lt] at hb
    rw [eval_bin_of hw hu, bin_le, ← holds_not_lt]
    have := Option.some.inj hb
    cases hx : xb <;> cases hl : Rel.lt.holds u w <;> simp_all [EV.ofBool]
  · rename_i p q
    obtain ⟨u, w, hu, hw, hb⟩ := eval_bin ha
    rw [bin_le] at hb
    rw [eval_bin_of hw hu, bin_lt, ← holds_not_le]
    have := Option.some.inj hb
    cases hx : xb <;> cases hl : Rel.le.holds u w <;> simp_all [EV.ofBool]
  · rename_i p q
    obtain ⟨u, w, hu, hw, hb⟩ := eval_bin ha
    rw [bin_gt] at hb
    rw [eval_bin_of hu hw, bin_le, ← holds_not_gt]
    have := Option.some.inj hb
    cases hx : xb <;> cases hl : Rel.gt.holds u w <;> simp_all [EV.ofBool]
  · rename_i p q
    obtain ⟨u, w, hu, hw, hb⟩ := eval_bin ha
    rw [bin_ge] at hb
    rw [eval_bin_of hu hw, bin_lt, ← holds_not_ge]
    have := Option.some.inj hb
    cases hx : xb <;> cases hl : Rel.ge.holds u w <;> simp_all [EV.ofBool]
  · cases h

theorem tryNot_sound (H : Hyp S env cfg) {x e' : Expr} (h : tryNot cfg x = .ok e') :
    Sound S env (.un .logical_not x) e' := by
  simp only [tryNot, bind_eq_ok] at h
  obtain ⟨o, ho, h⟩ := h
  cases o with
  | some r => simp only [pure_eq_ok] at h; subst h; exact rLogicalNot_sound H ho
  | none => simp only [pure_eq_ok] at h; subst h; exact Sound.refl _

/-- value of `not x` as produced by `tryNot` -/
theorem tryNot_eval (H : Hyp S env cfg) {x e' : Expr} {b : Bool} (h : tryNot cfg x = .ok e')
    (hx : eval S env x = some (EV.ofBool b)) : eval S env e' = some (EV.ofBool (!b)) := by
  apply tryNot_sound H h
  rw [eval_un_of hx, un_not_ofBool]

/-! ## `logical_and` -/

theorem eval_and {x y : Expr} {v : EV K} (h : eval S env (.bin .logical_and x y) = some v) :
    ∃ a b, eval S env x = some (EV.ofBool a) ∧ eval S env y = some (EV.ofBool b) ∧ v = EV.ofBool (a && b) := by
  obtain ⟨u, w, hu, hw, hb⟩ := eval_bin h
  obtain ⟨a, b, rfl, rfl, rfl⟩ := boolOp_some hb
  exact ⟨a, b, hu, hw, rfl⟩

theorem eval_or {x y : Expr} {v : EV K} (h : eval S env (.bin .logical_or x y) = some v) :
    ∃ a b, eval S env x = some (EV.ofBool a) ∧ eval S env y = some (EV.ofBool b) ∧ v = EV.ofBool (a || b) := by
  obtain ⟨u, w, hu, hw, hb⟩ := eval_bin h
  obtain ⟨a, b, rfl, rfl, rfl⟩ := boolOp_some hb
  exact ⟨a, b, hu, hw, rfl⟩

theorem eval_and_of {x y : Expr} {a b : Bool} (hx : eval S env x = some (EV.ofBool a)) (hy : eval S env y = some (EV.ofBool b)) :
    eval S env (.bin .logical_and x y) = some (EV.ofBool (a && b)) := by
  rw [eval_bin_of hx hy]; exact boolOp_ofBool _ _ _

theorem eval_or_of {x y : Expr} {a b : Bool} (hx : eval S env x = some (EV.ofBool a)) (hy : eval S env y = some (EV.ofBool b)) :
    eval S env (.bin .logical_or x y) = some (EV.ofBool (a || b)) := by
  rw [eval_bin_of hx hy]; exact boolOp_ofBool _ _ _

theorem ofBool_inj {a b : Bool} (h : (EV.ofBool a : EV K) = EV.ofBool b) : a = b := by
  cases a <;> cases b <;> simp_all [EV.ofBool]

theorem rLogicalAnd_sound (H : Hyp S env cfg) {x y e' : Expr} (h : rLogicalAnd cfg x y = .ok (some e')) :
    Sound S env (.bin .logical_and x y) e' := by
  intro v hv
  obtain ⟨a, b, hx, hy, rfl⟩ := eval_and hv
  obtain ⟨m, hm, h⟩ := firstSome_ok h
  simp only [List.mem_cons, List.mem_singleton, List.not_mem_nil, or_false] at hm
  rcases hm with rfl | rfl | rfl | rfl | rfl | rfl
  · simp only [pure_eq_ok, Option.map_eq_some_iff] at h
    obtain ⟨c, hc, rfl⟩ := h
    have := constBool_eval (env := env) H.L hc
    rw [hx] at this
    have := ofBool_inj (Option.some.inj this)
    subst this
    cases a
    · simp [eval_boolConst H.L]
    · simpa using hy
  · simp only [pure_eq_ok, Option.map_eq_some_iff] at h
    obtain ⟨c, hc, rfl⟩ := h
    have := constBool_eval (env := env) H.L hc
    rw [hy] at this
    have := ofBool_inj (Option.some.inj this)
    subst this
    cases b
    · simp [eval_boolConst H.L]
    · simpa using hx
  · simp only [pure_eq_ok] at h
    split_ifs at h with he
    cases h
    have : x = y := by simpa using he
    subst this
    rw [hx] at hy
    have := ofBool_inj (Option.some.inj hy)
    subst this
    simpa using hx
  · simp only [pure_eq_ok] at h
    split at h
    · rename_i p q
      split_ifs at h with he
      cases h
      obtain ⟨u, w, hu, hw, hb⟩ := eval_and hx
      simp only [Bool.or_eq_true, beq_iff_eq] at he
      rcases he with rfl | rfl
      · rw [hw] at hy
        have := ofBool_inj (Option.some.inj hy); subst this
        have := ofBool_inj hb; subst this
        rw [hx]; boolfin
      · rw [hu] at hy
        have := ofBool_inj (Option.some.inj hy); subst this
        have := ofBool_inj hb; subst this
        rw [hx]; boolfin
    · cases h
  · simp only [pure_eq_ok] at h
    split at h
    · rename_i p q
      split_ifs at h with he
      cases h
      obtain ⟨u, w, hu, hw, hb⟩ := eval_and hy
      simp only [Bool.or_eq_true, beq_iff_eq] at he
      rcases he with rfl | rfl
      · rw [hu] at hx
        have := ofBool_inj (Option.some.inj hx); subst this
        have := ofBool_inj hb; subst this
        rw [hy]; boolfin
      · rw [hw] at hx
        have := ofBool_inj (Option.some.inj hx); subst this
        have := ofBool_inj hb; subst this
        rw [hy]; boolfin
    · cases h
  · simp only [bind_eq_ok] at h
    obtain ⟨c, _, h⟩ := h
    split_ifs at h
    · simp only [pure_eq_ok, Option.some.injEq] at h
      subst h
      rw [eval_and_of hy hx, Bool.and_comm]
    · simp at h

theorem tryAnd_sound (H : Hyp S env cfg) {x y e' : Expr} (h : tryAnd cfg x y = .ok e') :
    Sound S env (.bin .logical_and x y) e' := by
  simp only [tryAnd, bind_eq_ok] at h
  obtain ⟨o, ho, h⟩ := h
  cases o with
  | some r => simp only [pure_eq_ok] at h; subst h; exact rLogicalAnd_sound H ho
  | none => simp only [pure_eq_ok] at h; subst h; exact Sound.refl _

theorem tryAnd_eval (H : Hyp S env cfg) {x y e' : Expr} {a b : Bool} (h : tryAnd cfg x y = .ok e')
    (hx : eval S env x = some (EV.ofBool a)) (hy : eval S env y = some (EV.ofBool b)) :
    eval S env e' = some (EV.ofBool (a && b)) :=
  tryAnd_sound H h _ (eval_and_of hx hy)

/-! ## `logical_or` -/

theorem orStep_sound (H : Hyp S env cfg) {x y e' : Expr} {a b : Bool} (h : orStep cfg x y = .ok (some e'))
    (hx : eval S env x = some (EV.ofBool a)) (hy : eval S env y = some (EV.ofBool b)) :
    eval S env e' = some (EV.ofBool (a || b)) := by
  unfold orStep at h
  split at h
  · rename_i c hc
    simp only [pure_eq_ok, Option.some.injEq] at h
    subst h
    have := constBool_eval (env := env) H.L hc
    rw [hx] at this
    have := ofBool_inj (Option.some.inj this)
    subst this
    cases a
    · simpa using hy
    · simp [eval_boolConst H.L]
  · simp only [bind_eq_ok] at h
    obtain ⟨notY, hn, h⟩ := h
    have hnotY := tryNot_eval H hn hy
    split at h
    · rename_i _ _ p q _
      obtain ⟨u, w, hu, hw, hb⟩ := eval_and hx
      have := ofBool_inj hb; subst this
      split_ifs at h with h1 h2 h3 h4 <;> simp only [pure_eq_ok, Option.some.injEq] at h <;> try subst h
      · have : p = notY := by simpa using h1
        subst this
        rw [hu] at hnotY
        have := ofBool_inj (Option.some.inj hnotY); subst this
        rw [eval_or_of hw hy]; boolfin
      · have : Expr.un K1.logical_not p = y := by simpa using h2
        subst this
        rw [eval_un_of hu, un_not_ofBool] at hy
        have := ofBool_inj (Option.some.inj hy); subst this
        rw [eval_or_of hw (by rw [eval_un_of hu, un_not_ofBool])]; boolfin
      · have : q = notY := by simpa using h3
        subst this
        rw [hw] at hnotY
        have := ofBool_inj (Option.some.inj hnotY); subst this
        rw [eval_or_of hu hy]; boolfin
      · have : Expr.un K1.logical_not q = y := by simpa using h4
        subst this
        rw [eval_un_of hw, un_not_ofBool] at hy
        have := ofBool_inj (Option.some.inj hy); subst this
        rw [eval_or_of hu (by rw [eval_un_of hw, un_not_ofBool])]; boolfin
      · cases h
    · simp at h

theorem rLogicalOr_sound (H : Hyp S env cfg) {x y e' : Expr} (h : rLogicalOr cfg x y = .ok (some e')) :
    Sound S env (.bin .logical_or x y) e' := by
  intro v hv
  obtain ⟨a, b, hx, hy, rfl⟩ := eval_or hv
  obtain ⟨m, hm, h⟩ := firstSome_ok h
  simp only [List.mem_cons, List.mem_singleton, List.not_mem_nil, or_false] at hm
  rcases hm with rfl | rfl | rfl | rfl
  · exact orStep_sound H h hx hy
  · rw [Bool.or_comm]; exact orStep_sound H h hy hx
  · simp only [pure_eq_ok] at h
    split_ifs at h with he
    cases h
    have : x = y := by simpa using he
    subst this
    rw [hx] at hy
    have := ofBool_inj (Option.some.inj hy)
    subst this
    simpa using hx
  · simp only [bind_eq_ok] at h
    obtain ⟨c, _, h⟩ := h
    split_ifs at h
    · simp only [pure_eq_ok, Option.some.injEq] at h
      subst h
      rw [eval_or_of hy hx, Bool.or_comm]
    · simp at h

/-! ## algebraic rules on arithmetic kinds -/

theorem eq1_sound (L : S.Laws) {v : CVal} {a : EV K} (hn : v.isNumber = true) (h1 : v.eq1 = true)
    (ha : S.const v = some a) : a = .fin 1 := by
  cases v <;> simp [CVal.isNumber] at hn
  case cplx t re im => simp [Sem.const, CVal.ext?] at ha
  case bool b =>
    simp only [CVal.eq1] at h1; subst h1
    rw [const_bool L] at ha; cases ha; simp [EV.ofBool]
  case int n =>
    have : n = 1 := by simpa [CVal.eq1] using h1
    subst this
    simp [Sem.const, CVal.ext?, Sem.ofExt] at ha
    obtain ⟨_, rfl⟩ := arith_eq_some ha
    simp [L.rnd_one]
  case flt t bits =>
    rw [const_of_ext (x := extOfBits t.fmt bits) (by simp [CVal.isReal]) rfl] at ha
    have he : extOfBits t.fmt bits = .fin 1 := by simpa [CVal.eq1, extEqQ] using h1
    rw [he] at ha
    simp only [Sem.ofExt, Rat.cast_one] at ha
    obtain ⟨_, rfl⟩ := arith_eq_some ha
    simp [L.rnd_one]

theorem constIs_zero (L : S.Laws) {x : Expr} {v : EV K} (h : constIs CVal.eq0 x = true) (hv : eval S env x = some v) :
    v = .fin 0 := by
  cases x <;> simp [constIs] at h
  rename_i c l
  have := eq0_sound L h.1 (by simpa [eval] using hv)
  rw [h.2] at this
  exact this

theorem constIs_one (L : S.Laws) {x : Expr} {v : EV K} (h : constIs CVal.eq1 x = true) (hv : eval S env x = some v) :
    v = .fin 1 := by
  cases x <;> simp [constIs] at h
  rename_i c l
  exact eq1_sound L h.1 h.2 (by simpa [eval] using hv)

theorem rep_fin (H : Hyp S env cfg) {e : Expr} {a : K} (h : eval S env e = some (.fin a)) : S.rnd a = a :=
  eval_rep H.L H.henv e _ h

/-- `x + y`, `x - y`, `x * y`, `x / y` need finite operands -/
theorem bin_arith_fin {k : K2} (hk : k = .add ∨ k = .subtract ∨ k = .multiply ∨ k = .divide) {a b v : EV K}
    (h : S.bin k a b = some v) : ∃ x y, a = .fin x ∧ b = .fin y := by
  rcases hk with rfl | rfl | rfl | rfl <;> cases a <;> cases b <;> simp [Sem.bin] at h <;> exact ⟨_, _, rfl, rfl⟩

theorem add_zero_left_sound (H : Hyp S env cfg) {x y : Expr} (h : constIs CVal.eq0 x = true) :
    Sound S env (.bin .add x y) y := by
  intro v hv
  obtain ⟨a, b, ha, hb, hv⟩ := eval_bin hv
  have := constIs_zero H.L h ha; subst this
  obtain ⟨_, yb, h1, rfl⟩ := bin_arith_fin (Or.inl rfl) hv
  simp only [Sem.bin, zero_add] at hv
  obtain ⟨_, rfl⟩ := arith_eq_some hv
  rw [rep_fin H hb]; exact hb

theorem add_zero_right_sound (H : Hyp S env cfg) {x y : Expr} (h : constIs CVal.eq0 y = true) :
    Sound S env (.bin .add x y) x := by
  intro v hv
  obtain ⟨a, b, ha, hb, hv⟩ := eval_bin hv
  have := constIs_zero H.L h hb; subst this
  obtain ⟨xa, _, rfl, h1⟩ := bin_arith_fin (Or.inl rfl) hv
  simp only [Sem.bin, add_zero] at hv
  obtain ⟨_, rfl⟩ := arith_eq_some hv
  rw [rep_fin H ha]; exact ha

theorem sub_zero_left_sound (H : Hyp S env cfg) {x y : Expr} (h : constIs CVal.eq0 x = true) :
    Sound S env (.bin .subtract x y) (.un .negative y) := by
  intro v hv
  obtain ⟨a, b, ha, hb, hv⟩ := eval_bin hv
  have := constIs_zero H.L h ha; subst this
  obtain ⟨_, yb, h1, rfl⟩ := bin_arith_fin (Or.inr (Or.inl rfl)) hv
  simp only [Sem.bin, zero_sub] at hv
  obtain ⟨_, rfl⟩ := arith_eq_some hv
  rw [eval_un_of hb, H.L.odd, rep_fin H hb]; rfl

theorem sub_zero_right_sound (H : Hyp S env cfg) {x y : Expr} (h : constIs CVal.eq0 y = true) :
    Sound S env (.bin .subtract x y) x := by
  intro v hv
  obtain ⟨a, b, ha, hb, hv⟩ := eval_bin hv
  have := constIs_zero H.L h hb; subst this
  obtain ⟨xa, _, rfl, h1⟩ := bin_arith_fin (Or.inr (Or.inl rfl)) hv
  simp only [Sem.bin, sub_zero] at hv
  obtain ⟨_, rfl⟩ := arith_eq_some hv
  rw [rep_fin H ha]; exact ha

theorem mul_one_left_sound (H : Hyp S env cfg) {x y : Expr} (h : constIs CVal.eq1 x = true) :
    Sound S env (.bin .multiply x y) y := by
  intro v hv
  obtain ⟨a, b, ha, hb, hv⟩ := eval_bin hv
  have := constIs_one H.L h ha; subst this
  obtain ⟨_, yb, h1, rfl⟩ := bin_arith_fin (Or.inr (Or.inr (Or.inl rfl))) hv
  simp only [Sem.bin, one_mul] at hv
  obtain ⟨_, rfl⟩ := arith_eq_some hv
  rw [rep_fin H hb]; exact hb

theorem mul_one_right_sound (H : Hyp S env cfg) {x y : Expr} (h : constIs CVal.eq1 y = true) :
    Sound S env (.bin .multiply x y) x := by
  intro v hv
  obtain ⟨a, b, ha, hb, hv⟩ := eval_bin hv
  have := constIs_one H.L h hb; subst this
  obtain ⟨xa, _, rfl, h1⟩ := bin_arith_fin (Or.inr (Or.inr (Or.inl rfl))) hv
  simp only [Sem.bin, mul_one] at hv
  obtain ⟨_, rfl⟩ := arith_eq_some hv
  rw [rep_fin H ha]; exact ha

theorem rDivide_sound (H : Hyp S env cfg) {x y e' : Expr} (h : rDivide cfg x y = .ok (some e')) :
    Sound S env (.bin .divide x y) e' := by
  unfold rDivide at h
  split_ifs at h with h1
  · simp only [pure_eq_ok, Option.some.injEq] at h; subst h
    intro v hv
    obtain ⟨a, b, ha, hb, hv⟩ := eval_bin hv
    have := constIs_one H.L h1 hb; subst this
    obtain ⟨xa, _, rfl, _⟩ := bin_arith_fin (Or.inr (Or.inr (Or.inr rfl))) hv
    simp only [Sem.bin, one_ne_zero, if_false, div_one] at hv
    obtain ⟨_, rfl⟩ := arith_eq_some hv
    rw [rep_fin H ha]; exact ha
  · simp at h

theorem neg_neg_sound (a : Expr) : Sound S env (.un .negative (.un .negative a)) a := by
  intro v hv
  obtain ⟨u, hu, hv⟩ := eval_un hv
  obtain ⟨w, hw, hu⟩ := eval_un hu
  simp only [Sem.un, Option.some.injEq] at hu hv
  subst hu hv
  rw [hw]; cases w <;> simp [EV.neg]

theorem abs_abs_sound (a : Expr) : Sound S env (.un .absolute (.un .absolute a)) (.un .absolute a) := by
  intro v hv
  obtain ⟨u, hu, hv⟩ := eval_un hv
  rw [hu]
  obtain ⟨w, hw, hu'⟩ := eval_un hu
  simp only [Sem.un, Option.some.injEq] at hu' hv
  subst hu' hv
  cases w <;> simp [EV.abs]

theorem sign_sign_sound (a : Expr) : Sound S env (.un .sign (.un .sign a)) (.un .sign a) := by
  intro v hv
  obtain ⟨u, hu, hv⟩ := eval_un hv
  rw [hu]
  obtain ⟨w, hw, hu'⟩ := eval_un hu
  simp only [Sem.un, Option.some.injEq] at hu' hv
  subst hu' hv
  cases w <;> simp only [EV.sign]
  · norm_num
  · rename_i x
    split_ifs <;> simp_all
    · norm_num
  · norm_num

theorem rUpcast_sound (H : Hyp S env cfg) {x e' : Expr} (h : rUpcast cfg x = .ok (some e')) :
    Sound S env (.un .upcast x) e' := by
  unfold rUpcast at h
  split at h
  · rename_i a
    split_ifs at h with hud
    · simp at h
    · simp only [pure_eq_ok, Option.some.injEq] at h; subst h
      intro v hv
      obtain ⟨u, hu, hv⟩ := eval_un hv
      obtain ⟨w, hw, hu'⟩ := eval_un hu
      rcases H.ud with h' | h'
      · exact absurd h' hud
      · cases w <;> simp only [Sem.un, Option.some.injEq] at hu' <;> subst hu' <;>
          simp only [Sem.un, Option.some.injEq] at hv <;> subst hv
        · exact hw
        · rw [h' _ (rep_fin H hw)]; exact hw
        · exact hw
  · simp at h

theorem rDowncast_sound (H : Hyp S env cfg) {x e' : Expr} (h : rDowncast cfg x = .ok (some e')) :
    Sound S env (.un .downcast x) e' := by
  unfold rDowncast at h
  split at h
  · rename_i a
    simp only [pure_eq_ok, Option.some.injEq] at h; subst h
    intro v hv
    obtain ⟨u, hu, hv⟩ := eval_un hv
    obtain ⟨w, hw, hu'⟩ := eval_un hu
    cases w <;> simp only [Sem.un, Option.some.injEq] at hu' <;> subst hu' <;>
      simp only [Sem.un, Option.some.injEq] at hv <;> subst hv
    · exact hw
    · rw [H.L.down_up _ (rep_fin H hw)]; exact hw
    · exact hw
  · simp at h

theorem const_int_zero (L : S.Laws) : S.const (.int 0) = some (.fin (0 : K)) := by
  simp [Sem.const, CVal.ext?, Sem.ofExt, Sem.arith, L.ok_zero, L.rnd_zero]

theorem rLog_sound (H : Hyp S env cfg) {k : K1} (hk : k = .log ∨ k = .log10 ∨ k = .log2) {x e' : Expr}
    (h : rLog cfg x = .ok (some e')) : Sound S env (.un k x) e' := by
  unfold rLog at h
  split at h
  · rename_i c l
    split_ifs at h with h1
    · simp only [bind_eq_ok, pure_eq_ok, Option.some.injEq] at h
      obtain ⟨e2, he2, rfl⟩ := h
      intro v hv
      obtain ⟨u, hu, hv⟩ := eval_un hv
      simp only [Bool.and_eq_true] at h1
      have := eq1_sound H.L h1.1 h1.2 (by simpa [eval] using hu)
      subst this
      rw [eval_mkConst H.strict he2, const_int_zero H.L]
      rcases hk with rfl | rfl | rfl <;> simp only [Sem.un, K1.name] at hv
      · rw [H.L.log_one.1] at hv; simpa using hv
      · rw [H.L.log_one.2.2] at hv; simpa using hv
      · rw [H.L.log_one.2.1] at hv; simpa using hv
    · simp at h
  · simp at h

theorem rLog1p_sound (H : Hyp S env cfg) {x e' : Expr} (h : rLog1p cfg x = .ok (some e')) :
    Sound S env (.un .log1p x) e' := by
  unfold rLog1p at h
  split at h
  · rename_i c l
    split_ifs at h with h1
    · simp only [pure_eq_ok, Option.some.injEq] at h; subst h
      intro v hv
      obtain ⟨u, hu, hv⟩ := eval_un hv
      simp only [Bool.and_eq_true] at h1
      have := eq0_sound H.L h1.1 (by simpa [eval] using hu)
      rw [h1.2] at this
      simp only [ZeroFact] at this
      subst this
      simp only [Sem.un, K1.name, H.L.log1p_zero] at hv
      rw [hu]; simpa using hv
    · simp at h
  · simp at h

end FAVerif.Rewriter
