/-
`next(x)` by multiplication/division with c = 1 - 2^-p  (fpa.next / nextup / nextdown), for every
precision p ≥ 2, every emin and ANY round-to-nearest (ties arbitrary): for a normal x = k·2^e
(2^(p-1) ≤ k < 2^p, e ≥ emin),  RN(x / c) is the successor of x and RN(x · c) its predecessor.
-/
import FAVerif.Lemmas.FPTheory

namespace FAVerif.FPQ

variable {f : QFmt}

/-- No representable number lies strictly between k·2^e and (k+1)·2^e when 2^(p-1) ≤ k < 2^p. -/
lemma gap_above {k : ℤ} {e : ℤ} {z : ℚ} (hk1 : 2 ^ (f.p - 1) ≤ k) (hz : Rep f z)
    (h1 : (k : ℚ) * 2 ^ e < z) (h2 : z < ((k : ℚ) + 1) * 2 ^ e) : False := by
  obtain ⟨mz, ez, rfl, hmz, _⟩ := hz
  have hu := two_zpow_pos e
  have huz := two_zpow_pos ez
  have hkpos : (0 : ℚ) < k := by
    have : (0 : ℤ) < 2 ^ (f.p - 1) := by positivity
    exact_mod_cast lt_of_lt_of_le this hk1
  have hmzpos : 0 < mz := by
    by_contra hneg
    push Not at hneg
    have : (mz : ℚ) * 2 ^ ez ≤ 0 := mul_nonpos_of_nonpos_of_nonneg (by exact_mod_cast hneg) huz.le
    have : (0 : ℚ) < k * 2 ^ e := by positivity
    linarith
  rcases le_or_gt e ez with hee | hee
  · -- z is an integer multiple of 2^e
    obtain ⟨d, rfl⟩ : ∃ d : ℕ, ez = e + d := ⟨(ez - e).toNat, by omega⟩
    have hz' : (mz : ℚ) * 2 ^ (e + (d : ℤ)) = ((mz * 2 ^ d : ℤ) : ℚ) * 2 ^ e := by
      rw [zpow_add₀ (by norm_num : (2 : ℚ) ≠ 0), zpow_natCast]; push_cast; ring
    rw [hz'] at h1 h2
    have a1 : (k : ℚ) < ((mz * 2 ^ d : ℤ) : ℚ) := lt_of_mul_lt_mul_right h1 hu.le
    have a2 : ((mz * 2 ^ d : ℤ) : ℚ) < (k : ℚ) + 1 := lt_of_mul_lt_mul_right h2 hu.le
    have b1 : k < mz * 2 ^ d := by exact_mod_cast a1
    have b2 : mz * 2 ^ d < k + 1 := by exact_mod_cast a2
    omega
  · -- z is below the binade of k·2^e
    have hmz' : (mz : ℚ) < 2 ^ f.p := by
      have := lt_of_le_of_lt (le_abs_self mz) hmz
      exact_mod_cast this
    have hle : (2 : ℚ) ^ ez ≤ 2 ^ (e - 1) := zpow_le_zpow_right₀ (by norm_num) (by omega)
    have hp : (2 : ℚ) ^ f.p = 2 * 2 ^ (f.p - 1) := by
      have := f.hp
      obtain ⟨n, hn⟩ : ∃ n, f.p = n + 1 := ⟨f.p - 1, by omega⟩
      rw [hn, pow_succ]; simp; ring
    have he1 : (2 : ℚ) ^ e = 2 * 2 ^ (e - 1) := by
      rw [show e = (e - 1) + 1 by ring, zpow_add₀ (by norm_num : (2 : ℚ) ≠ 0)]; simp; ring
    have hk1' : (2 : ℚ) ^ (f.p - 1) ≤ k := by exact_mod_cast hk1
    have : (mz : ℚ) * 2 ^ ez < (k : ℚ) * 2 ^ e := by
      calc (mz : ℚ) * 2 ^ ez < 2 ^ f.p * 2 ^ ez := mul_lt_mul_of_pos_right hmz' huz
        _ ≤ 2 ^ f.p * 2 ^ (e - 1) := mul_le_mul_of_nonneg_left hle (by positivity)
        _ = 2 ^ (f.p - 1) * 2 ^ e := by rw [hp, he1]; ring
        _ ≤ (k : ℚ) * 2 ^ e := mul_le_mul_of_nonneg_right hk1' hu.le
    linarith

/-- every representable number is a multiple of 2^emin -/
lemma mult_emin {z : ℚ} (hz : Rep f z) : Mult f.emin z := by
  obtain ⟨m, e, rfl, _, he⟩ := hz
  exact Mult.mono he ⟨m, rfl⟩

/-- A representable number below y = k·2^e (2^(p-1) ≤ k < 2^p, e ≥ emin) is at most y − 2^e/2. -/
lemma below_gap {k : ℤ} {e : ℤ} {z : ℚ} (hk1 : 2 ^ (f.p - 1) ≤ k) (hk2 : k < 2 ^ f.p) (he : f.emin ≤ e)
    (hz : Rep f z) (h : z < (k : ℚ) * 2 ^ e) : z ≤ (k : ℚ) * 2 ^ e - 2 ^ e / 2 := by
  have hu := two_zpow_pos e
  rcases lt_or_eq_of_le hk1 with hgt | heq
  · -- predecessor is (k-1)·2^e
    by_contra hc
    push Not at hc
    rcases le_or_gt z (((k - 1 : ℤ) : ℚ) * 2 ^ e) with h' | h'
    · push_cast at h'; nlinarith
    · exact gap_above (k := k - 1) (by omega) hz h' (by push_cast; linarith)
  · -- k = 2^(p-1): y is a power of two
    have hp : (2 : ℚ) ^ f.p = 2 * 2 ^ (f.p - 1) := by
      have := f.hp
      obtain ⟨n, hn⟩ : ∃ n, f.p = n + 1 := ⟨f.p - 1, by omega⟩
      rw [hn, pow_succ]; simp; ring
    have hkq : (k : ℚ) = 2 ^ (f.p - 1) := by rw [← heq]; push_cast; ring
    have he1 : (2 : ℚ) ^ e = 2 * 2 ^ (e - 1) := by
      rw [show e = (e - 1) + 1 by ring, zpow_add₀ (by norm_num : (2 : ℚ) ≠ 0)]; simp; ring
    rcases lt_or_eq_of_le he with hlt | heq'
    · -- e - 1 ≥ emin: y = 2^p · 2^(e-1), predecessor (2^p - 1)·2^(e-1)
      by_contra hc
      push Not at hc
      have hy : (k : ℚ) * 2 ^ e = (((2 ^ f.p - 1 : ℤ) : ℚ) + 1) * 2 ^ (e - 1) := by
        rw [hkq, he1]; push_cast; rw [hp]; ring
      have hpos : (0 : ℤ) < 2 ^ (f.p - 1) := by positivity
      have hp' : (2 : ℤ) ^ f.p = 2 * 2 ^ (f.p - 1) := by exact_mod_cast hp
      refine gap_above (f := f) (k := 2 ^ f.p - 1) (e := e - 1) (by omega) hz ?_ (by rw [← hy]; exact h)
      have : (((2 ^ f.p - 1 : ℤ) : ℚ)) * 2 ^ (e - 1) = (k : ℚ) * 2 ^ e - 2 ^ e / 2 := by
        rw [hkq, he1]; push_cast; rw [hp]; ring
      rw [this]; exact hc
    · -- e = emin: everything is a multiple of 2^emin = 2^e
      obtain ⟨j, hj⟩ := mult_emin hz
      rw [heq'] at hj
      rw [hj] at h ⊢
      have : (j : ℚ) < k := lt_of_mul_lt_mul_right h hu.le
      have hjk : j ≤ k - 1 := by have : j < k := by exact_mod_cast this
                                 omega
      have : (j : ℚ) ≤ (k : ℚ) - 1 := by exact_mod_cast hjk
      nlinarith

variable {r : ℚ → ℚ} (hr : IsRN f r)
include hr

/-- A representable y strictly closer to v than every other representable number is RN(v). -/
lemma rn_unique {v y : ℚ} (hy : Rep f y) (h : ∀ z, Rep f z → z ≠ y → |y - v| < |z - v|) : r v = y := by
  by_contra hne
  have h1 := h (r v) (hr.rep v) hne
  have h2 := hr.near v y hy
  linarith

/-- **next up**: for normal x = k·2^e > 0, RN(x / (1 - 2^-p)) = x + 2^e, the successor of x. -/
theorem next_up_pos {k : ℤ} {e : ℤ} (hk1 : 2 ^ (f.p - 1) ≤ k) (hk2 : k < 2 ^ f.p) (he : f.emin ≤ e) :
    r ((k : ℚ) * 2 ^ e / (1 - 1 / 2 ^ f.p)) = ((k : ℚ) + 1) * 2 ^ e := by
  have hu := two_zpow_pos e
  have hP : (1 : ℚ) < 2 ^ f.p := one_lt_pow₀ (by norm_num) (by have := f.hp; omega)
  have hp : (2 : ℚ) ^ f.p = 2 * 2 ^ (f.p - 1) := by
    have := f.hp
    obtain ⟨n, hn⟩ : ∃ n, f.p = n + 1 := ⟨f.p - 1, by omega⟩
    rw [hn, pow_succ]; simp; ring
  have hk1' : (2 : ℚ) ^ (f.p - 1) ≤ k := by exact_mod_cast hk1
  have hk2' : (k : ℚ) ≤ 2 ^ f.p - 1 := by
    have : k ≤ 2 ^ f.p - 1 := by omega
    exact_mod_cast this
  -- v = (k + δ)·u with 1/2 < δ ≤ 1
  set δ : ℚ := (k : ℚ) / (2 ^ f.p - 1) with hδ
  have hden : (0 : ℚ) < 2 ^ f.p - 1 := by linarith
  have hv : (k : ℚ) * 2 ^ e / (1 - 1 / 2 ^ f.p) = ((k : ℚ) + δ) * 2 ^ e := by
    rw [hδ]; field_simp; ring
  have hδ1 : δ ≤ 1 := by rw [hδ, div_le_one hden]; exact hk2'
  have hδ2 : 1 / 2 < δ := by
    rw [hδ, lt_div_iff₀ hden]; nlinarith
  rw [hv]
  have hy : Rep f (((k : ℚ) + 1) * 2 ^ e) := by
    apply rep_of_mult_le he ⟨k + 1, by push_cast; ring⟩
    rw [abs_of_pos (by have : (0:ℚ) < k := lt_of_lt_of_le (by positivity) hk1'
                       positivity)]
    have : (k : ℚ) + 1 ≤ 2 ^ f.p := by linarith
    exact mul_le_mul_of_nonneg_right this hu.le
  apply rn_unique hr hy
  intro z hz hne
  have hyv : |((k : ℚ) + 1) * 2 ^ e - ((k : ℚ) + δ) * 2 ^ e| = (1 - δ) * 2 ^ e := by
    rw [show ((k : ℚ) + 1) * 2 ^ e - ((k : ℚ) + δ) * 2 ^ e = (1 - δ) * 2 ^ e by ring]
    exact abs_of_nonneg (mul_nonneg (by linarith) hu.le)
  rw [hyv]
  rcases lt_or_gt_of_ne hne with hlt | hgt
  · -- z < y ⇒ z ≤ k·u
    have hzle : z ≤ (k : ℚ) * 2 ^ e := by
      by_contra hc; push Not at hc
      exact gap_above hk1 hz hc hlt
    rw [abs_of_nonpos (by nlinarith)]
    nlinarith
  · -- z > y ⇒ z ≥ y + u
    have hzge : ((k : ℚ) + 2) * 2 ^ e ≤ z := by
      by_contra hc; push Not at hc
      rcases lt_or_eq_of_le (show k + 1 ≤ 2 ^ f.p by omega) with hlt' | heq'
      · exact gap_above (k := k + 1) (by omega) hz (by push_cast; linarith) (by push_cast; linarith)
      · -- y = 2^p·u = 2^(p-1)·2^(e+1)
        have hkq : (k : ℚ) + 1 = 2 ^ f.p := by exact_mod_cast heq'
        have he1 : (2 : ℚ) ^ (e + 1) = 2 * 2 ^ e := by
          rw [zpow_add₀ (by norm_num : (2 : ℚ) ≠ 0)]; simp; ring
        refine gap_above (f := f) (k := 2 ^ (f.p - 1)) (e := e + 1) (le_refl _) hz ?_ ?_
        · push_cast; rw [he1]; rw [hkq, hp] at hgt; linarith
        · push_cast; rw [he1]
          have : ((k : ℚ) + 2) * 2 ^ e = (2 ^ f.p + 1) * 2 ^ e := by rw [← hkq]; ring
          rw [this, hp] at hc; nlinarith
    rw [abs_of_nonneg (by nlinarith)]
    nlinarith

/-- **next down, generic significand**: k > 2^(p-1) ⇒ RN(x · (1 - 2^-p)) = x − 2^e. -/
theorem next_down_pos {k : ℤ} {e : ℤ} (hk1 : 2 ^ (f.p - 1) < k) (hk2 : k < 2 ^ f.p) (he : f.emin ≤ e) :
    r ((k : ℚ) * 2 ^ e * (1 - 1 / 2 ^ f.p)) = ((k : ℚ) - 1) * 2 ^ e := by
  have hu := two_zpow_pos e
  have hP : (0 : ℚ) < 2 ^ f.p := by positivity
  have hp : (2 : ℚ) ^ f.p = 2 * 2 ^ (f.p - 1) := by
    have := f.hp
    obtain ⟨n, hn⟩ : ∃ n, f.p = n + 1 := ⟨f.p - 1, by omega⟩
    rw [hn, pow_succ]; simp; ring
  have hk1' : (2 : ℚ) ^ (f.p - 1) < k := by exact_mod_cast hk1
  have hk2' : (k : ℚ) < 2 ^ f.p := by exact_mod_cast hk2
  set δ : ℚ := (k : ℚ) / 2 ^ f.p with hδ
  have hv : (k : ℚ) * 2 ^ e * (1 - 1 / 2 ^ f.p) = ((k : ℚ) - δ) * 2 ^ e := by
    rw [hδ]; field_simp
  have hδ1 : δ < 1 := by rw [hδ, div_lt_one hP]; exact hk2'
  have hδ2 : 1 / 2 < δ := by rw [hδ, lt_div_iff₀ hP]; linarith
  rw [hv]
  have hkpos : (0 : ℚ) < (k : ℚ) - 1 := by
    have : (1 : ℚ) ≤ 2 ^ (f.p - 1) := one_le_pow₀ (by norm_num)
    linarith
  have hy : Rep f (((k : ℚ) - 1) * 2 ^ e) := by
    apply rep_of_mult_le he ⟨k - 1, by push_cast; ring⟩
    rw [abs_of_pos (by positivity)]
    exact mul_le_mul_of_nonneg_right (by linarith) hu.le
  apply rn_unique hr hy
  intro z hz hne
  have hyv : |((k : ℚ) - 1) * 2 ^ e - ((k : ℚ) - δ) * 2 ^ e| = (1 - δ) * 2 ^ e := by
    rw [show ((k : ℚ) - 1) * 2 ^ e - ((k : ℚ) - δ) * 2 ^ e = -((1 - δ) * 2 ^ e) by ring, abs_neg]
    exact abs_of_nonneg (mul_nonneg (by linarith) hu.le)
  rw [hyv]
  rcases lt_or_gt_of_ne hne with hlt | hgt
  · -- z < y ⇒ z ≤ y − u/2
    have := below_gap (f := f) (k := k - 1) (by omega) (by omega) he hz (by push_cast; exact hlt)
    push_cast at this
    rw [abs_of_nonpos (by nlinarith)]
    nlinarith
  · -- z > y ⇒ z ≥ k·u
    have hzge : (k : ℚ) * 2 ^ e ≤ z := by
      by_contra hc; push Not at hc
      exact gap_above (k := k - 1) (by omega) hz (by push_cast; exact hgt) (by push_cast; linarith)
    rw [abs_of_nonneg (by nlinarith)]
    nlinarith

/-- **next down at a power of two**: k = 2^(p-1), e > emin ⇒ RN(x · (1 - 2^-p)) = x − 2^e/2 (exact). -/
theorem next_down_pow2 {e : ℤ} (he : f.emin < e) :
    r ((2 : ℚ) ^ (f.p - 1) * 2 ^ e * (1 - 1 / 2 ^ f.p)) = (2 : ℚ) ^ (f.p - 1) * 2 ^ e - 2 ^ e / 2 := by
  have hp : (2 : ℚ) ^ f.p = 2 * 2 ^ (f.p - 1) := by
    have := f.hp
    obtain ⟨n, hn⟩ : ∃ n, f.p = n + 1 := ⟨f.p - 1, by omega⟩
    rw [hn, pow_succ]; simp; ring
  have he1 : (2 : ℚ) ^ e = 2 * 2 ^ (e - 1) := by
    rw [show e = (e - 1) + 1 by ring, zpow_add₀ (by norm_num : (2 : ℚ) ≠ 0)]; simp; ring
  have hP : (0 : ℚ) < 2 ^ (f.p - 1) := by positivity
  have hval : (2 : ℚ) ^ (f.p - 1) * 2 ^ e * (1 - 1 / 2 ^ f.p) = (2 : ℚ) ^ (f.p - 1) * 2 ^ e - 2 ^ e / 2 := by
    rw [hp]; field_simp
  rw [hval]
  apply rn_id hr
  have : (2 : ℚ) ^ (f.p - 1) * 2 ^ e - 2 ^ e / 2 = ((2 ^ f.p - 1 : ℤ) : ℚ) * 2 ^ (e - 1) := by
    rw [he1]; push_cast; rw [hp]; ring
  rw [this]
  refine ⟨2 ^ f.p - 1, e - 1, rfl, ?_, by omega⟩
  have h1 : (1 : ℤ) ≤ 2 ^ f.p := one_le_pow₀ (by norm_num)
  rw [abs_of_nonneg (by omega)]; omega

end FAVerif.FPQ

namespace FAVerif.FPQ

variable {f : QFmt} {r : ℚ → ℚ}

/-- rounding to nearest is symmetric: v ↦ −r(−v) is again a round-to-nearest -/
lemma isRN_neg (hr : IsRN f r) : IsRN f (fun v => -r (-v)) where
  rep x := rep_neg' hr (hr.rep _)
  near x y hy := by
    have := hr.near (-x) (-y) (rep_neg' hr hy)
    calc |-r (-x) - x| = |r (-x) - -x| := by rw [← abs_neg]; ring_nf
      _ ≤ |-y - -x| := this
      _ = |y - x| := by rw [← abs_neg]; ring_nf

/-- next toward zero / away from zero for negative normal x = −k·2^e -/
theorem next_up_neg (hr : IsRN f r) {k : ℤ} {e : ℤ} (hk1 : 2 ^ (f.p - 1) < k) (hk2 : k < 2 ^ f.p) (he : f.emin ≤ e) :
    r (-((k : ℚ) * 2 ^ e) * (1 - 1 / 2 ^ f.p)) = -(((k : ℚ) - 1) * 2 ^ e) := by
  have := next_down_pos (isRN_neg hr) hk1 hk2 he
  beta_reduce at this
  rw [show -((k : ℚ) * 2 ^ e) * (1 - 1 / 2 ^ f.p) = -((k : ℚ) * 2 ^ e * (1 - 1 / 2 ^ f.p)) by ring]
  linarith

theorem next_down_neg (hr : IsRN f r) {k : ℤ} {e : ℤ} (hk1 : 2 ^ (f.p - 1) ≤ k) (hk2 : k < 2 ^ f.p) (he : f.emin ≤ e) :
    r (-((k : ℚ) * 2 ^ e) / (1 - 1 / 2 ^ f.p)) = -(((k : ℚ) + 1) * 2 ^ e) := by
  have := next_up_pos (isRN_neg hr) hk1 hk2 he
  beta_reduce at this
  rw [show -((k : ℚ) * 2 ^ e) / (1 - 1 / 2 ^ f.p) = -((k : ℚ) * 2 ^ e / (1 - 1 / 2 ^ f.p)) by ring]
  linarith

/-- (k+1)·2^e is THE successor of k·2^e among representable numbers, and (k−1)·2^e (k > 2^(p-1)) the predecessor. -/
theorem succ_is_least {k : ℤ} {e : ℤ} {z : ℚ} (hk1 : 2 ^ (f.p - 1) ≤ k) (hz : Rep f z)
    (h : (k : ℚ) * 2 ^ e < z) : ((k : ℚ) + 1) * 2 ^ e ≤ z := by
  by_contra hc; push Not at hc
  exact gap_above hk1 hz h hc

theorem pred_is_greatest {k : ℤ} {e : ℤ} {z : ℚ} (hk1 : 2 ^ (f.p - 1) < k) (hz : Rep f z)
    (h : z < (k : ℚ) * 2 ^ e) : z ≤ ((k : ℚ) - 1) * 2 ^ e := by
  by_contra hc; push Not at hc
  exact gap_above (k := k - 1) (by omega) hz (by push_cast; exact hc) (by push_cast; linarith)

end FAVerif.FPQ
