/-
Lemmas about the StableHLO / XLA-client printer models (C06).
-/
import FAVerif.Models.PrinterHLO

set_option linter.unusedSimpArgs false

namespace FAVerif.PrinterHLO

/-! ## Generic helpers -/

theorem lookup_mem {α β : Type} [BEq α] [LawfulBEq α] :
    ∀ (l : List (α × β)) (k : α) (v : β), l.lookup k = some v → (k, v) ∈ l
  | [], _, _, h => by simp [List.lookup] at h
  | (k', v') :: l, k, v, h => by
    simp only [List.lookup] at h
    split at h
    · rename_i heq
      have : k = k' := by simpa using heq
      simp_all
    · exact List.mem_cons_of_mem _ (lookup_mem l k v h)

theorem E.self_mem_subs (e : E) : e ∈ e.subs := by
  cases e <;> simp [E.subs]

theorem E.self_mem_xsubs (e : E) : e ∈ e.xsubs := by
  cases e <;> simp [E.xsubs]

def E.opKind : E → String
  | .op1 _ _ _ k _ | .op2 _ _ _ k _ _ | .op3 _ _ _ k _ _ _ => k
  | _ => ""

/-! ## `compute_need_ref` is monotone -/

theorem cn_need_mono : ∀ (e : E) (m : Need) (x : String), x ∈ m.need → x ∈ (cn e m).need := by
  intro e
  induction e with
  | sym r n f t =>
    intro m x hx
    simp only [cn]
    split
    · simp [Need.mark, hx]
    · simp only [Need.first]; split <;> simp [hx]
  | const r f t v like ih =>
    intro m x hx
    simp only [cn]
    split
    · simp [Need.mark, hx]
    · apply ih; simp only [Need.first]; split <;> simp [hx]
  | constE r f t val like ihv ihl =>
    intro m x hx
    simp only [cn]
    split
    · simp [Need.mark, hx]
    · apply ihl; apply ihv; simp only [Need.first]; split <;> simp [hx]
  | op1 r f t k a iha =>
    intro m x hx
    simp only [cn]
    split
    · simp [Need.mark, hx]
    · apply iha; simp only [Need.first]; split <;> simp [hx]
  | op2 r f t k a b iha ihb =>
    intro m x hx
    simp only [cn]
    split
    · simp [Need.mark, hx]
    · apply ihb; apply iha; simp only [Need.first]; split <;> simp [hx]
  | op3 r f t k a b c iha ihb ihc =>
    intro m x hx
    simp only [cn]
    split
    · simp [Need.mark, hx]
    · apply ihc; apply ihb; apply iha; simp only [Need.first]; split <;> simp [hx]

/-! ## StableHLO: what a pattern denotes -/

def CVal.printed : CVal → String
  | .named s => s
  | .lit fmt _ => fmt

/-- A binding `:$r` names a node whose tree is the one the environment assigns to `r`. -/
def BindOK (ρ : String → Option T) (b : Option String) (t : T) : Prop := ∀ r, b = some r → ρ r = some t

/-- `DenS ρ p t`: read through the TRUSTED operator tables, with every name `$r` standing for the
tree `ρ r`, the pattern `p` is the operator tree `t` — operator of the kind, operands in order,
comparison direction of the kind, constant value and `like` operand — and every binding site
`:$r` inside `p` labels a node whose tree is `ρ r`. -/
inductive DenS (ρ : String → Option T) : P → T → Prop
  | ref {r t} : ρ r = some t → DenS ρ (.ref r) t
  | constNamed {tgt b lk s tl} : trustedHloConst.lookup s = some tgt → DenS ρ lk tl →
      BindOK ρ b (.const (.named s) tl) → DenS ρ (.n1 (.constNamed tgt) b lk) (.const (.named s) tl)
  | constLit {b lk cv tl} : DenS ρ lk tl → BindOK ρ b (.const cv tl) →
      DenS ρ (.n1 (.constLit cv.printed) b lk) (.const cv tl)
  | op1 {hlo b pa k ta} : trustedHlo.lookup k = some hlo → DenS ρ pa ta → BindOK ρ b (.op1 k ta) →
      DenS ρ (.n1 (.op hlo) b pa) (.op1 k ta)
  | op2 {hlo b pa pb k ta tb} : trustedHlo.lookup k = some hlo → DenS ρ pa ta → DenS ρ pb tb →
      BindOK ρ b (.op2 k ta tb) → DenS ρ (.n2 (.op hlo) b pa pb) (.op2 k ta tb)
  | op3 {hlo b pa pb pc k ta tb tc} : trustedHlo.lookup k = some hlo → DenS ρ pa ta → DenS ρ pb tb →
      DenS ρ pc tc → BindOK ρ b (.op3 k ta tb tc) → DenS ρ (.n3 (.op hlo) b pa pb pc) (.op3 k ta tb tc)
  | cmp1 {d b pa k ta} : trustedDir.lookup k = some d → DenS ρ pa ta → BindOK ρ b (.op1 k ta) →
      DenS ρ (.n1 (.cmp d) b pa) (.op1 k ta)
  | cmp2 {d b pa pb k ta tb} : trustedDir.lookup k = some d → DenS ρ pa ta → DenS ρ pb tb →
      BindOK ρ b (.op2 k ta tb) → DenS ρ (.n2 (.cmp d) b pa pb) (.op2 k ta tb)
  | cmp3 {d b pa pb pc k ta tb tc} : trustedDir.lookup k = some d → DenS ρ pa ta → DenS ρ pb tb →
      DenS ρ pc tc → BindOK ρ b (.op3 k ta tb tc) → DenS ρ (.n3 (.cmp d) b pa pb pc) (.op3 k ta tb tc)

/-- The table the printer runs with agrees with the specification, except on the kinds `bad`. -/
structure STableOK (bad : List String) (tb : STables) : Prop where
  kinds : ∀ k hlo, tb.kinds.lookup k = some (.op hlo) → k ∉ bad → trustedHlo.lookup k = some hlo
  consts : ∀ s t, tb.consts.lookup s = some t → trustedHloConst.lookup s = some t

theorem cmpDirs : ∀ k ∈ cmpKinds, trustedDir.lookup k = some (upper k) := by decide

theorem sTableOK_of_rows (bad : List String) (tb : STables)
    (hk : ∀ row ∈ tb.kinds, row.1 ∉ bad → sRowOk row = true)
    (hc : ∀ row ∈ tb.consts, sConstOk row = true) : STableOK bad tb where
  kinds := by
    intro k hlo h hb
    have := hk (k, .op hlo) (lookup_mem _ _ _ h) hb
    simp only [sRowOk, Bool.and_eq_true, beq_iff_eq] at this
    exact this.1
  consts := by
    intro s t h
    have := hc (s, t) (lookup_mem _ _ _ h)
    simpa [sConstOk] using this

/-- The head chosen for a node of kind `k` is the specified operator / direction of `k`. -/
inductive HeadOK (k : String) : Head → Prop
  | op {hlo} : trustedHlo.lookup k = some hlo → HeadOK k (.op hlo)
  | cmp {d} : trustedDir.lookup k = some d → HeadOK k (.cmp d)

theorem headOf_ok {bad tb k h} (htb : STableOK bad tb) (hb : k ∉ bad) (hh : headOf tb k = .ok h) : HeadOK k h := by
  unfold headOf at hh
  split at hh
  · rename_i hc
    cases hh
    exact .cmp (cmpDirs k hc)
  · split at hh
    · rename_i hlo hl
      cases hh
      exact .op (htb.kinds k hlo hl hb)
    · cases hh
    · cases hh
    · cases hh

theorem bindOK_if {ρ : String → Option T} {need : String → Bool} {r : String} {t : T} (h : ρ r = some t) :
    BindOK ρ (if need r = true then some r else none) t := by
  intro r' hr'
  split at hr'
  · cases hr'; exact h
  · cases hr'

theorem den_const {ρ : String → Option T} {bad tb} (htb : STableOK bad tb) (v : CVal) {lk tl b}
    (hl : DenS ρ lk tl) (hb : BindOK ρ b (.const v tl)) : DenS ρ (.n1 (constHead tb v).1 b lk) (.const v tl) := by
  cases v with
  | named s =>
    simp only [constHead]
    split
    · rename_i t ht
      exact .constNamed (htb.consts s t ht) hl hb
    · exact .constLit (cv := .named s) hl hb
  | lit fmt str =>
    simp only [constHead]
    exact .constLit (cv := .lit fmt str) hl hb

/-- **tree level faithfulness of the StableHLO printer.** -/
theorem denS_prS {tb bad} {ρ : String → Option T} {need : String → Bool} (htb : STableOK bad tb) :
    ∀ (e : E), (∀ s ∈ e.subs, ρ s.ref = some (strip s)) → (∀ s ∈ e.subs, s.opKind ∉ bad) →
      ∀ st p st', prS tb need e st = .ok (p, st') → DenS ρ p (strip e) := by
  intro e
  induction e with
  | sym r n f t =>
    intro hρ _ st p st' h
    simp only [prS] at h
    cases h
    exact .ref (hρ _ (E.self_mem_subs _))
  | const r f t v like ih =>
    intro hρ hbad st p st' h
    have hself := hρ _ (E.self_mem_subs (.const r f t v like))
    have hlike : ∀ s ∈ like.subs, ρ s.ref = some (strip s) := fun s hs => hρ s (by simp [E.subs, hs])
    have hbl : ∀ s ∈ like.subs, s.opKind ∉ bad := fun s hs => hbad s (by simp [E.subs, hs])
    simp only [prS] at h
    split at h
    · split at h
      · cases h; exact .ref hself
      · cases h
    · split at h
      · cases h
        simp only [strip]
        exact den_const htb v (.ref (hlike like (E.self_mem_subs _))) (bindOK_if hself)
      · split at h
        · cases h
        · rename_i lk st2 hl
          cases h
          simp only [strip]
          exact den_const htb v (ih hlike hbl _ _ _ hl) (bindOK_if hself)
  | constE r f t val like _ _ =>
    intro _ _ st p st' h
    simp [prS] at h
  | op1 r f t k a iha =>
    intro hρ hbad st p st' h
    have hself := hρ _ (E.self_mem_subs (.op1 r f t k a))
    have hk : k ∉ bad := hbad _ (E.self_mem_subs (.op1 r f t k a))
    have ha : ∀ s ∈ a.subs, ρ s.ref = some (strip s) := fun s hs => hρ s (by simp [E.subs, hs])
    have hba : ∀ s ∈ a.subs, s.opKind ∉ bad := fun s hs => hbad s (by simp [E.subs, hs])
    simp only [prS] at h
    split at h
    · split at h
      · cases h; exact .ref hself
      · cases h
    · split at h
      · cases h
      · rename_i hd hh
        split at h
        · cases h
        · rename_i pa st2 hpa
          cases h
          simp only [strip]
          have da := iha ha hba _ _ _ hpa
          cases headOf_ok htb hk hh with
          | op ho => exact .op1 ho da (bindOK_if hself)
          | cmp hc => exact .cmp1 hc da (bindOK_if hself)
  | op2 r f t k a b iha ihb =>
    intro hρ hbad st p st' h
    have hself := hρ _ (E.self_mem_subs (.op2 r f t k a b))
    have hk : k ∉ bad := hbad _ (E.self_mem_subs (.op2 r f t k a b))
    have ha : ∀ s ∈ a.subs, ρ s.ref = some (strip s) := fun s hs => hρ s (by simp [E.subs, hs])
    have hba : ∀ s ∈ a.subs, s.opKind ∉ bad := fun s hs => hbad s (by simp [E.subs, hs])
    have hb : ∀ s ∈ b.subs, ρ s.ref = some (strip s) := fun s hs => hρ s (by simp [E.subs, hs])
    have hbb : ∀ s ∈ b.subs, s.opKind ∉ bad := fun s hs => hbad s (by simp [E.subs, hs])
    simp only [prS] at h
    split at h
    · split at h
      · cases h; exact .ref hself
      · cases h
    · split at h
      · cases h
      · rename_i hd hh
        split at h
        · cases h
        · rename_i pa st2 hpa
          split at h
          · cases h
          · rename_i pb st3 hpb
            cases h
            simp only [strip]
            have da := iha ha hba _ _ _ hpa
            have db := ihb hb hbb _ _ _ hpb
            cases headOf_ok htb hk hh with
            | op ho => exact .op2 ho da db (bindOK_if hself)
            | cmp hc => exact .cmp2 hc da db (bindOK_if hself)
  | op3 r f t k a b c iha ihb ihc =>
    intro hρ hbad st p st' h
    have hself := hρ _ (E.self_mem_subs (.op3 r f t k a b c))
    have hk : k ∉ bad := hbad _ (E.self_mem_subs (.op3 r f t k a b c))
    have ha : ∀ s ∈ a.subs, ρ s.ref = some (strip s) := fun s hs => hρ s (by simp [E.subs, hs])
    have hba : ∀ s ∈ a.subs, s.opKind ∉ bad := fun s hs => hbad s (by simp [E.subs, hs])
    have hb : ∀ s ∈ b.subs, ρ s.ref = some (strip s) := fun s hs => hρ s (by simp [E.subs, hs])
    have hbb : ∀ s ∈ b.subs, s.opKind ∉ bad := fun s hs => hbad s (by simp [E.subs, hs])
    have hc : ∀ s ∈ c.subs, ρ s.ref = some (strip s) := fun s hs => hρ s (by simp [E.subs, hs])
    have hbc : ∀ s ∈ c.subs, s.opKind ∉ bad := fun s hs => hbad s (by simp [E.subs, hs])
    simp only [prS] at h
    split at h
    · split at h
      · cases h; exact .ref hself
      · cases h
    · split at h
      · cases h
      · rename_i hd hh
        split at h
        · cases h
        · rename_i pa st2 hpa
          split at h
          · cases h
          · rename_i pb st3 hpb
            split at h
            · cases h
            · rename_i pc st4 hpc
              cases h
              simp only [strip]
              have da := iha ha hba _ _ _ hpa
              have db := ihb hb hbb _ _ _ hpb
              have dc := ihc hc hbc _ _ _ hpc
              cases headOf_ok htb hk hh with
              | op ho => exact .op3 ho da db dc (bindOK_if hself)
              | cmp hcm => exact .cmp3 hcm da db dc (bindOK_if hself)

/-! ## StableHLO: every name is bound once, textually before it is referenced

The printer's traversal and `compute_need_ref`'s traversal run in lockstep (`Agree`): whenever the
printer refers to a name it did not bind just now, `compute_need_ref` met that name a second time
and therefore marked it as needed, so the binding `:$name` was emitted when the node was printed. -/

def Agree (U : List E) (D : List String) (m : Need) : Prop :=
  ∀ s ∈ U, s.isSym = false → (s.ref ∈ D ↔ s.ref ∈ m.seen)

structure InvB (need : String → Bool) (D B : List String) : Prop where
  sub : ∀ r ∈ B, r ∈ D
  bound : ∀ r ∈ D, need r = true → r ∈ B

/-- Standing assumptions on the graph: `U` = sub-expressions of the body. -/
structure WellNamed (U : List E) (argRefs : List String) : Prop where
  closed : ∀ s ∈ U, s.isSym = true → s.ref ∈ argRefs
  nonsym : ∀ s ∈ U, s.isSym = false → s.ref ∉ argRefs

theorem cn_seen (e : E) (m : Need) (h : e.ref ∈ m.seen) : cn e m = m.mark e.ref := by
  cases e <;> simp_all [cn, E.ref]

theorem checkBind_use {B : List String} {r : String} (h : r ∈ B) (rest : List Ev) :
    checkBind B (Ev.use r :: rest) = checkBind B rest := by
  simp [checkBind, h]

theorem agree_sym {U argRefs D m} (wn : WellNamed U argRefs) (e : E) (he : e ∈ U) (hs : e.isSym = true)
    (hag : Agree U D m) : Agree U D (cn e m) := by
  cases e with
  | sym r n f t =>
    intro s hsU hns
    have hne : s.ref ≠ r := by
      intro heq
      have h1 := wn.closed _ he hs
      have h2 := wn.nonsym s hsU hns
      simp only [E.ref] at h1
      exact h2 (heq ▸ h1)
    have := hag s hsU hns
    simp only [cn]
    split
    · simpa [Need.mark] using this
    · simp [Need.first, hne, this]
  | _ => simp [E.isSym] at hs

/-- A non-symbol node met again: printed as `$ref`; the name is bound because it is needed. -/
theorem repeat_ok {U : List E} {argRefs : List String} {need : String → Bool} {D B : List String} {m final : Need} (e : E) (he : e ∈ U) (hns : e.isSym = false)
    (hag : Agree U D m) (hinv : InvB need D B) (hD : e.ref ∈ D) (hn : need e.ref = true) (rest : List Ev)
    (_hfin : ∀ r ∈ (cn e m).need, r ∈ final.need) (_wn : WellNamed U argRefs) :
    checkBind B (Ev.use e.ref :: rest) = checkBind B rest ∧ Agree U D (cn e m) := by
  refine ⟨checkBind_use (hinv.bound _ hD hn) rest, ?_⟩
  have hseen : e.ref ∈ m.seen := (hag e he hns).1 hD
  rw [cn_seen e m hseen]
  intro s hs hs'
  simpa [Need.mark] using hag s hs hs'

/-- Entering a node that is printed in full: `:$ref` is emitted iff the name is needed. -/
theorem enter_ok {U need D B m} (r : String) (f : Bool) (hD : r ∉ D) (hag : Agree U D m) (hinv : InvB need D B)
    (evs : List Ev) :
    ∃ B1, checkBind B (bindEv (if need r = true then some r else none) ++ evs) = checkBind B1 evs ∧
      Agree U (r :: D) (m.first r f) ∧ InvB need (r :: D) B1 ∧ (∀ x ∈ B, x ∈ B1) := by
  have hB : r ∉ B := fun h => hD (hinv.sub r h)
  have hag' : Agree U (r :: D) (m.first r f) := by
    intro s hs hns
    have := hag s hs hns
    simp only [Need.first, List.mem_cons]
    constructor
    · rintro (h | h)
      · exact Or.inl h
      · exact Or.inr (this.1 h)
    · rintro (h | h)
      · exact Or.inl h
      · exact Or.inr (this.2 h)
  by_cases hn : need r = true
  · refine ⟨r :: B, ?_, hag', ⟨?_, ?_⟩, fun x hx => List.mem_cons_of_mem _ hx⟩
    · simp [hn, bindEv, checkBind, hB]
    · intro x hx
      rcases List.mem_cons.1 hx with h | h
      · exact h ▸ List.mem_cons_self
      · exact List.mem_cons_of_mem _ (hinv.sub x h)
    · intro x hx hnx
      rcases List.mem_cons.1 hx with h | h
      · exact h ▸ List.mem_cons_self
      · exact List.mem_cons_of_mem _ (hinv.bound x h hnx)
  · refine ⟨B, ?_, hag', ⟨?_, ?_⟩, fun x hx => hx⟩
    · simp [hn, bindEv]
    · intro x hx
      exact List.mem_cons_of_mem _ (hinv.sub x hx)
    · intro x hx hnx
      rcases List.mem_cons.1 hx with h | h
      · exact absurd (h ▸ hnx) hn
      · exact hinv.bound x h hnx

/-- The statement proved for every sub-expression by induction. -/
def GoodS (tb : STables) (need : String → Bool) (argRefs : List String) (U : List E) (final : Need) (e : E) : Prop :=
  (∀ s ∈ e.subs, s ∈ U) →
  ∀ (st : SSt) (m : Need) (B : List String) (rest : List Ev) (p : P) (st' : SSt),
    Agree U st.defined m → InvB need st.defined B → (∀ r ∈ argRefs, r ∈ B) →
    (∀ r ∈ (cn e m).need, r ∈ final.need) →
    prS tb need e st = .ok (p, st') →
    ∃ B', checkBind B (p.events ++ rest) = checkBind B' rest ∧ Agree U st'.defined (cn e m) ∧
      InvB need st'.defined B' ∧ (∀ r ∈ argRefs, r ∈ B')

theorem goodS_all {tb : STables} {need : String → Bool} {argRefs : List String} {U : List E} {final : Need}
    (wn : WellNamed U argRefs) (hneed : ∀ r ∈ final.need, need r = true) :
    ∀ e, GoodS tb need argRefs U final e := by
  intro e
  induction e with
  | sym r n f t =>
    intro hU st m B rest p st' hag hinv hargs _ h
    have he : E.sym r n f t ∈ U := hU _ (E.self_mem_subs _)
    simp only [prS] at h
    cases h
    have hrB : r ∈ B := hargs r (wn.closed _ he rfl)
    exact ⟨B, checkBind_use hrB rest, agree_sym wn _ he rfl hag, hinv, hargs⟩
  | const r f t v like ih =>
    intro hU st m B rest p st' hag hinv hargs hfin h
    have he : E.const r f t v like ∈ U := hU _ (E.self_mem_subs _)
    have hUl : ∀ s ∈ like.subs, s ∈ U := fun s hs => hU s (by simp [E.subs, hs])
    have hlU : like ∈ U := hUl _ (E.self_mem_subs _)
    simp only [prS] at h
    split at h
    · rename_i hD
      split at h
      · rename_i hn
        cases h
        obtain ⟨h1, h2⟩ := repeat_ok (E.const r f t v like) he rfl hag hinv hD hn rest hfin wn
        exact ⟨B, h1, h2, hinv, hargs⟩
      · cases h
    · rename_i hD
      have hseen : r ∉ m.seen := fun hs => hD ((hag _ he rfl).2 hs)
      have hcn : cn (E.const r f t v like) m = cn like (m.first r f) := by simp [cn, hseen]
      rw [hcn] at hfin ⊢
      split at h
      · rename_i hlD
        simp only [Except.ok.injEq, Prod.mk.injEq] at h
        obtain ⟨rfl, rfl⟩ := h
        obtain ⟨B1, hb1, hag1, hinv1, hsub1⟩ := enter_ok (U := U) r f hD hag hinv ((P.ref like.ref).events ++ rest)
        have hlB : like.ref ∈ B1 := by
          cases hsym : like.isSym with
          | true => exact hsub1 _ (hargs _ (wn.closed _ hlU hsym))
          | false =>
            have hls : like.ref ∈ (m.first r f).seen := (hag1 _ hlU hsym).1 hlD
            have : like.ref ∈ (cn like (m.first r f)).need := by
              rw [cn_seen like _ hls]; simp [Need.mark]
            exact hinv1.bound _ hlD (hneed _ (hfin _ this))
        refine ⟨B1, ?_, ?_, hinv1, fun x hx => hsub1 _ (hargs x hx)⟩
        · simp only [P.events, List.append_assoc, List.cons_append, List.nil_append] at *
          rw [hb1]
          exact checkBind_use hlB rest
        · cases hsym : like.isSym with
          | true => exact agree_sym wn _ hlU hsym hag1
          | false =>
            have hls : like.ref ∈ (m.first r f).seen := (hag1 _ hlU hsym).1 hlD
            rw [cn_seen like _ hls]
            intro s hs hs'
            simpa [Need.mark] using hag1 s hs hs'
      · split at h
        · cases h
        · rename_i lk st2 hl
          simp only [Except.ok.injEq, Prod.mk.injEq] at h
          obtain ⟨rfl, rfl⟩ := h
          obtain ⟨B1, hb1, hag1, hinv1, hsub1⟩ := enter_ok (U := U) r f hD hag hinv (lk.events ++ rest)
          obtain ⟨B2, hb2, hag2, hinv2, hargs2⟩ :=
            ih hUl { st with defined := r :: st.defined, warnUndef := st.warnUndef + 1 } (m.first r f) B1 rest lk st2
              hag1 hinv1 (fun x hx => hsub1 _ (hargs x hx)) hfin hl
          refine ⟨B2, ?_, hag2, hinv2, hargs2⟩
          simp only [P.events, List.append_assoc, List.cons_append, List.nil_append] at *
          rw [hb1, hb2]
  | constE r f t val like _ _ =>
    intro _ st m B rest p st' _ _ _ _ h
    simp [prS] at h
  | op1 r f t k a iha =>
    intro hU st m B rest p st' hag hinv hargs hfin h
    have he : E.op1 r f t k a ∈ U := hU _ (E.self_mem_subs _)
    have hUa : ∀ s ∈ a.subs, s ∈ U := fun s hs => hU s (by simp [E.subs, hs])
    simp only [prS] at h
    split at h
    · rename_i hD
      split at h
      · rename_i hn
        cases h
        obtain ⟨h1, h2⟩ := repeat_ok (E.op1 r f t k a) he rfl hag hinv hD hn rest hfin wn
        exact ⟨B, h1, h2, hinv, hargs⟩
      · cases h
    · rename_i hD
      have hseen : r ∉ m.seen := fun hs => hD ((hag _ he rfl).2 hs)
      have hcn : cn (E.op1 r f t k a) m = cn a (m.first r f) := by simp [cn, hseen]
      rw [hcn] at hfin ⊢
      split at h
      · cases h
      · split at h
        · cases h
        · rename_i pa st2 hpa
          simp only [Except.ok.injEq, Prod.mk.injEq] at h
          obtain ⟨rfl, rfl⟩ := h
          obtain ⟨B1, hb1, hag1, hinv1, hsub1⟩ := enter_ok (U := U) r f hD hag hinv (pa.events ++ rest)
          obtain ⟨B2, hb2, hag2, hinv2, hargs2⟩ :=
            iha hUa { st with defined := r :: st.defined } (m.first r f) B1 rest pa st2
              hag1 hinv1 (fun x hx => hsub1 _ (hargs x hx)) hfin hpa
          refine ⟨B2, ?_, hag2, hinv2, hargs2⟩
          simp only [P.events, List.append_assoc, List.cons_append, List.nil_append] at *
          rw [hb1, hb2]
  | op2 r f t k a b iha ihb =>
    intro hU st m B rest p st' hag hinv hargs hfin h
    have he : E.op2 r f t k a b ∈ U := hU _ (E.self_mem_subs _)
    have hUa : ∀ s ∈ a.subs, s ∈ U := fun s hs => hU s (by simp [E.subs, hs])
    have hUb : ∀ s ∈ b.subs, s ∈ U := fun s hs => hU s (by simp [E.subs, hs])
    simp only [prS] at h
    split at h
    · rename_i hD
      split at h
      · rename_i hn
        cases h
        obtain ⟨h1, h2⟩ := repeat_ok (E.op2 r f t k a b) he rfl hag hinv hD hn rest hfin wn
        exact ⟨B, h1, h2, hinv, hargs⟩
      · cases h
    · rename_i hD
      have hseen : r ∉ m.seen := fun hs => hD ((hag _ he rfl).2 hs)
      have hcn : cn (E.op2 r f t k a b) m = cn b (cn a (m.first r f)) := by simp [cn, hseen]
      rw [hcn] at hfin ⊢
      split at h
      · cases h
      · split at h
        · cases h
        · rename_i pa st2 hpa
          split at h
          · cases h
          · rename_i pb st3 hpb
            simp only [Except.ok.injEq, Prod.mk.injEq] at h
            obtain ⟨rfl, rfl⟩ := h
            obtain ⟨B1, hb1, hag1, hinv1, hsub1⟩ :=
              enter_ok (U := U) r f hD hag hinv (pa.events ++ (pb.events ++ rest))
            obtain ⟨B2, hb2, hag2, hinv2, hargs2⟩ :=
              iha hUa { st with defined := r :: st.defined } (m.first r f) B1 (pb.events ++ rest) pa st2
                hag1 hinv1 (fun x hx => hsub1 _ (hargs x hx))
                (fun x hx => hfin x (cn_need_mono b _ x hx)) hpa
            obtain ⟨B3, hb3, hag3, hinv3, hargs3⟩ :=
              ihb hUb st2 (cn a (m.first r f)) B2 rest pb st3 hag2 hinv2 hargs2 hfin hpb
            refine ⟨B3, ?_, hag3, hinv3, hargs3⟩
            simp only [P.events, List.append_assoc, List.cons_append, List.nil_append] at *
            rw [hb1, hb2, hb3]
  | op3 r f t k a b c iha ihb ihc =>
    intro hU st m B rest p st' hag hinv hargs hfin h
    have he : E.op3 r f t k a b c ∈ U := hU _ (E.self_mem_subs _)
    have hUa : ∀ s ∈ a.subs, s ∈ U := fun s hs => hU s (by simp [E.subs, hs])
    have hUb : ∀ s ∈ b.subs, s ∈ U := fun s hs => hU s (by simp [E.subs, hs])
    have hUc : ∀ s ∈ c.subs, s ∈ U := fun s hs => hU s (by simp [E.subs, hs])
    simp only [prS] at h
    split at h
    · rename_i hD
      split at h
      · rename_i hn
        cases h
        obtain ⟨h1, h2⟩ := repeat_ok (E.op3 r f t k a b c) he rfl hag hinv hD hn rest hfin wn
        exact ⟨B, h1, h2, hinv, hargs⟩
      · cases h
    · rename_i hD
      have hseen : r ∉ m.seen := fun hs => hD ((hag _ he rfl).2 hs)
      have hcn : cn (E.op3 r f t k a b c) m = cn c (cn b (cn a (m.first r f))) := by simp [cn, hseen]
      rw [hcn] at hfin ⊢
      split at h
      · cases h
      · split at h
        · cases h
        · rename_i pa st2 hpa
          split at h
          · cases h
          · rename_i pb st3 hpb
            split at h
            · cases h
            · rename_i pc st4 hpc
              simp only [Except.ok.injEq, Prod.mk.injEq] at h
              obtain ⟨rfl, rfl⟩ := h
              obtain ⟨B1, hb1, hag1, hinv1, hsub1⟩ :=
                enter_ok (U := U) r f hD hag hinv (pa.events ++ (pb.events ++ (pc.events ++ rest)))
              obtain ⟨B2, hb2, hag2, hinv2, hargs2⟩ :=
                iha hUa { st with defined := r :: st.defined } (m.first r f) B1 (pb.events ++ (pc.events ++ rest)) pa st2
                  hag1 hinv1 (fun x hx => hsub1 _ (hargs x hx))
                  (fun x hx => hfin x (cn_need_mono c _ x (cn_need_mono b _ x hx))) hpa
              obtain ⟨B3, hb3, hag3, hinv3, hargs3⟩ :=
                ihb hUb st2 (cn a (m.first r f)) B2 (pc.events ++ rest) pb st3 hag2 hinv2 hargs2
                  (fun x hx => hfin x (cn_need_mono c _ x hx)) hpb
              obtain ⟨B4, hb4, hag4, hinv4, hargs4⟩ :=
                ihc hUc st3 (cn b (cn a (m.first r f))) B3 rest pc st4 hag3 hinv3 hargs3 hfin hpc
              refine ⟨B4, ?_, hag4, hinv4, hargs4⟩
              simp only [P.events, List.append_assoc, List.cons_append, List.nil_append] at *
              rw [hb1, hb2, hb3, hb4]

theorem visitSym_seen (m : Need) (r : String) (f : Bool) (x : String) :
    x ∈ (visitSym m r f).seen → x = r ∨ x ∈ m.seen := by
  unfold visitSym
  split
  · intro h; exact Or.inr (by simpa [Need.mark] using h)
  · intro h; simpa [Need.first] using h

theorem foldl_visit_seen (args : List Arg) : ∀ (m : Need) (x : String),
    x ∈ (args.foldl (fun m a => visitSym m a.ref a.force) m).seen → x ∈ m.seen ∨ x ∈ args.map (·.ref) := by
  induction args with
  | nil => intro m x h; exact Or.inl h
  | cons a as ih =>
    intro m x h
    simp only [List.foldl_cons] at h
    rcases ih _ _ h with h1 | h1
    · rcases visitSym_seen _ _ _ _ h1 with h2 | h2
      · exact Or.inr (by simp [h2])
      · exact Or.inl h2
    · exact Or.inr (by simp only [List.map_cons, List.mem_cons]; exact Or.inr h1)

/-- **bind_once for the StableHLO printer** (whole function). -/
theorem bindS_top (tb : STables) (f : Fn)
    (closed : ∀ s ∈ f.body.subs, s.isSym = true → s.ref ∈ f.argRefs)
    (nonsym : ∀ s ∈ f.body.subs, s.isSym = false → s.ref ∉ f.argRefs ∧ s.ref ≠ f.fnameRef)
    (o : SOut) (h : printS tb f = .ok o) :
    ∃ B, checkBind f.argRefs o.pattern.events = some B := by
  unfold printS at h
  split at h
  · cases h
  · rename_i p st hp
    cases h
    have wn : WellNamed f.body.subs f.argRefs := ⟨closed, fun s hs hns => (nonsym s hs hns).1⟩
    have hag0 : Agree f.body.subs f.argRefs.reverse (cnArgs f) := by
      intro s hs hns
      have h1 := nonsym s hs hns
      constructor
      · intro hm; exact absurd (List.mem_reverse.1 hm) h1.1
      · intro hm
        exfalso
        rcases foldl_visit_seen f.args _ _ hm with h2 | h2
        · rcases visitSym_seen _ _ _ _ h2 with h3 | h3
          · exact h1.2 h3
          · simp at h3
        · exact h1.1 h2
    have hinv0 : InvB (needFn f) f.argRefs.reverse f.argRefs :=
      ⟨fun r hr => List.mem_reverse.2 hr, fun r hr _ => List.mem_reverse.1 hr⟩
    obtain ⟨B', hb, _, _, _⟩ :=
      goodS_all (tb := tb) (final := cnFn f) wn (fun r hr => by simp [needFn, needOf, hr]) f.body (fun s hs => hs)
        ⟨f.argRefs.reverse, 0, 0⟩ (cnArgs f) f.argRefs [] p st hag0 hinv0 (fun r hr => hr)
        (fun r hr => hr) hp
    refine ⟨B', ?_⟩
    simpa [checkBind] using hb

/-! ## XLA client: what the emitted C++ denotes -/

def specOf : Mode → List (String × Shape) × List (String × String)
  | .main => (trustedXla, [])
  | .cpp => (trustedCpp, trustedCppRaw)

/-- value part of a constant -/
inductive DenV : Mode → X → CVal → Prop
  | litMain {s str} : DenV .main (.litV s) (.lit s str)         -- the xla printer formats the value itself
  | litCpp {fmt s} : DenV .cpp (.litV s) (.lit fmt s)           -- the cpp printer prints `str(value)`
  | named {mode n ps ty} : trustedCppConst.lookup n = some (renderPieces ps) → DenV mode (.namedV n ps ty) (.named n)
  | unk {mode n} : DenV mode (.unkV n) (.named n)               -- undeclared name, printed verbatim (with a warning)

/-- `DenX ρ mode x t`: read through the TRUSTED tables (xla builder calls in `main` mode, C++
operators / <cmath> in `cpp` mode), with every variable `v` standing for `ρ v`, the C++ expression
`x` is the operator tree `t`.  `ScalarLike(l, v)` is the constant `v` attached to the like `ρ l`;
in `cpp` mode a constant carries no like operand (its type is the like's C++ type, see `pickInf`). -/
inductive DenX (ρ : String → Option T) : Mode → X → T → Prop
  | var {mode r t} : ρ r = some t → DenX ρ mode (.var r) t
  | name {mode s} : DenX ρ mode (.name s) (.sym s)
  | constMain {l xv cv tl} : ρ l = some tl → DenV .main xv cv → DenX ρ .main (.scalarLike l xv) (.const cv tl)
  | constEMain {l xv tv tl} : ρ l = some tl → DenX ρ .cpp xv tv → DenX ρ .main (.scalarLike l xv) (.constE tv tl)
  | constCpp {t x cv tl} : DenV .cpp x cv → DenX ρ .cpp (pickInf t x) (.const cv tl)
  | t1 {mode ps ty0 xa k ta} : rowSpec (specOf mode).1 (specOf mode).2 k ps = true → DenX ρ mode xa ta →
      DenX ρ mode (.t1 ps ty0 xa) (.op1 k ta)
  | t2 {mode ps ty0 xa xb k ta tb} : rowSpec (specOf mode).1 (specOf mode).2 k ps = true → DenX ρ mode xa ta →
      DenX ρ mode xb tb → DenX ρ mode (.t2 ps ty0 xa xb) (.op2 k ta tb)
  | t3 {mode ps ty0 xa xb xc k ta tb tc} : rowSpec (specOf mode).1 (specOf mode).2 k ps = true → DenX ρ mode xa ta →
      DenX ρ mode xb tb → DenX ρ mode xc tc → DenX ρ mode (.t3 ps ty0 xa xb xc) (.op3 k ta tb tc)

/-- Every assignment defines the variable `ρ` says it defines. -/
def StmtsOK (ρ : String → Option T) (stmts : List Stmt) : Prop :=
  ∀ s ∈ stmts, ∃ mode t, ρ s.var = some t ∧ DenX ρ mode s.rhs t

structure XTableOK (bad : Mode → List String) (tb : XTabs) : Prop where
  kinds : ∀ mode, ∀ row ∈ (tb.of mode).kinds, row.kind ∉ bad mode → xRowOk (specOf mode).1 (specOf mode).2 row = true
  consts : ∀ mode, ∀ row ∈ (tb.of mode).consts, xConstOk row = true

theorem findRow_some {rows : List TRow} {k : String} {row : TRow} (h : findRow rows k = some row) :
    row ∈ rows ∧ row.kind = k := by
  unfold findRow at h
  exact ⟨List.mem_of_find?_eq_some h, by simpa using List.find?_some h⟩

theorem rowFor_spec {bad tb mode k row} (htb : XTableOK bad tb) (hb : k ∉ bad mode)
    (h : rowFor (tb.of mode) k = .ok row) : rowSpec (specOf mode).1 (specOf mode).2 k row.pieces = true := by
  unfold rowFor at h
  split at h
  · cases h
  · rename_i row' hf
    obtain ⟨hm, hk⟩ := findRow_some hf
    split at h
    · cases h
    · rename_i raw hr
      cases h
      have := htb.kinds mode row hm (hk ▸ hb)
      simp only [xRowOk, hr, Bool.and_eq_true] at this
      exact hk ▸ this.2

theorem finishX_den {ρ : String → Option T} {types need r ty x st x' st' mode t}
    (h : finishX types need r ty x st = .ok (x', st')) (hx : DenX ρ mode x t) (hr : ρ r = some t)
    (hs : StmtsOK ρ st.stmts) : DenX ρ mode x' t ∧ StmtsOK ρ st'.stmts := by
  unfold finishX at h
  split at h
  · split at h
    · cases h
    · split at h
      · cases h
      · rename_i ty' _
        simp only [Except.ok.injEq, Prod.mk.injEq] at h
        obtain ⟨rfl, rfl⟩ := h
        refine ⟨.var hr, ?_⟩
        intro s hs'
        simp only [List.mem_append, List.mem_singleton] at hs'
        rcases hs' with h1 | h1
        · exact hs s h1
        · subst h1; exact ⟨mode, t, hr, hx⟩
  · simp only [Except.ok.injEq, Prod.mk.injEq] at h
    obtain ⟨rfl, rfl⟩ := h
    exact ⟨hx, hs⟩

theorem wrapX_ok {T mode like st x warn x' st1} (h : wrapX T mode like st x warn = .ok (x', st1)) :
    (mode = .main ∧ x' = .scalarLike like.ref x ∧
      st1 = { st with late := st.late + lateOf st like.ref, warnConst := st.warnConst + warn }) ∨
    (mode = .cpp ∧ (∃ t, x' = pickInf t x) ∧ st1 = { st with warnConst := st.warnConst + warn }) := by
  unfold wrapX at h
  cases mode with
  | main =>
    simp only [Except.ok.injEq, Prod.mk.injEq] at h
    exact Or.inl ⟨rfl, h.1.symm, h.2.symm⟩
  | cpp =>
    simp only [cppConst] at h
    cases hg : getTy T.types like.ty with
    | error e => simp [hg] at h
    | ok t =>
      simp only [hg, Except.ok.injEq, Prod.mk.injEq] at h
      exact Or.inr ⟨rfl, ⟨t, h.1.symm⟩, h.2.symm⟩

theorem constVal_den {bad tb mode ty v x warn} (htb : XTableOK bad tb)
    (h : constVal (tb.of mode) mode ty v = .ok (x, warn)) : DenV mode x v := by
  unfold constVal at h
  cases v with
  | lit fmt str =>
    cases mode <;> simp only [Except.ok.injEq, Prod.mk.injEq] at h <;> obtain ⟨rfl, _⟩ := h
    · exact .litMain
    · exact .litCpp
  | named s =>
    simp only at h
    split at h
    · simp only [Except.ok.injEq, Prod.mk.injEq] at h
      obtain ⟨rfl, _⟩ := h
      exact .unk
    · rename_i row hf
      split at h
      · simp only [Except.ok.injEq, Prod.mk.injEq] at h
        obtain ⟨rfl, _⟩ := h
        exact .unk
      · rename_i raw hr
        split at h
        · cases h
        · split at h
          · cases h
          · simp only [Except.ok.injEq, Prod.mk.injEq] at h
            obtain ⟨rfl, _⟩ := h
            obtain ⟨hm, hk⟩ := findRow_some hf
            have := htb.consts mode row hm
            simp only [xConstOk, hr, Bool.and_eq_true, beq_iff_eq] at this
            exact .named (by rw [← hk, this.2, this.1])

theorem constX_ok {T mode ty v like st x st1} (h : constX T mode ty v like st = .ok (x, st1)) :
    ∃ x0 warn, constVal T mode ty v = .ok (x0, warn) ∧ wrapX T mode like st x0 warn = .ok (x, st1) := by
  unfold constX at h
  split at h
  · cases h
  · rename_i x0 warn hv
    exact ⟨x0, warn, hv, h⟩

theorem constX_den {ρ : String → Option T} {bad tb mode ty v like st x st1 tl} (htb : XTableOK bad tb)
    (h : constX (tb.of mode) mode ty v like st = .ok (x, st1)) (hl : ρ like.ref = some tl) :
    DenX ρ mode x (.const v tl) ∧ st1.stmts = st.stmts := by
  obtain ⟨x0, warn, hv, hw⟩ := constX_ok h
  have dv := constVal_den htb hv
  rcases wrapX_ok hw with ⟨rfl, rfl, rfl⟩ | ⟨rfl, ⟨t, rfl⟩, rfl⟩
  · exact ⟨.constMain hl dv, rfl⟩
  · exact ⟨.constCpp dv, rfl⟩

/-- **tree level faithfulness of the XLA client printer** (one expression). -/
theorem denX_prX {tb : XTabs} {bad : Mode → List String} {ρ : String → Option T} {need : String → Bool}
    (htb : XTableOK bad tb) :
    ∀ (e : E), (∀ s ∈ e.subs, ρ s.ref = some (strip s)) →
      (∀ s ∈ e.xsubs, ∀ r n f t, s = .sym r n f t → n = r) →
      ∀ mode, (∀ s ∈ e.subs, s.opKind ∉ bad mode ∧ s.opKind ∉ bad .cpp) →
      ∀ st x st', prX tb need mode e st = .ok (x, st') → StmtsOK ρ st.stmts →
        DenX ρ mode x (strip e) ∧ StmtsOK ρ st'.stmts := by
  intro e
  induction e with
  | sym r n f t =>
    intro hρ hsym mode _ st x st' h hs
    have hself := hρ _ (E.self_mem_subs (.sym r n f t))
    have hn : n = r := hsym _ (E.self_mem_xsubs (.sym r n f t)) r n f t rfl
    simp only [prX] at h
    split at h
    · split at h
      · cases h; exact ⟨.var hself, hs⟩
      · cases h
    · subst hn
      exact finishX_den h .name hself hs
  | const r f t v like _ =>
    intro hρ _ mode _ st x st' h hs
    have hself := hρ _ (E.self_mem_subs (.const r f t v like))
    have hl : ρ like.ref = some (strip like) := hρ like (by simp [E.subs, E.self_mem_subs])
    simp only [prX] at h
    split at h
    · split at h
      · cases h; exact ⟨.var hself, hs⟩
      · cases h
    · split at h
      · cases h
      · rename_i x1 st1 hc
        obtain ⟨d, hst⟩ := constX_den htb hc hl
        exact finishX_den h d hself (hst ▸ hs)
  | constE r f t val like ihv _ =>
    intro hρ hsym mode hbad st x st' h hs
    have hself := hρ _ (E.self_mem_subs (.constE r f t val like))
    have hl : ρ like.ref = some (strip like) := hρ like (by simp [E.subs, E.self_mem_subs])
    have hv : ∀ s ∈ val.subs, ρ s.ref = some (strip s) := fun s hs => hρ s (by simp [E.subs, hs])
    have hsv : ∀ s ∈ val.xsubs, ∀ r n f t, s = .sym r n f t → n = r := fun s hs => hsym s (by simp [E.xsubs, hs])
    have hbv : ∀ s ∈ val.subs, s.opKind ∉ bad .cpp ∧ s.opKind ∉ bad .cpp :=
      fun s hs => ⟨(hbad s (by simp [E.subs, hs])).2, (hbad s (by simp [E.subs, hs])).2⟩
    simp only [prX] at h
    split at h
    · split at h
      · cases h; exact ⟨.var hself, hs⟩
      · cases h
    · cases mode with
      | cpp => simp at h
      | main =>
        simp only at h
        split at h
        · cases h
        · rename_i xv st1 hpv
          obtain ⟨dv, hs1⟩ := ihv hv hsv .cpp hbv _ _ _ hpv hs
          exact finishX_den h (.constEMain hl dv) hself hs1
  | op1 r f t k a iha =>
    intro hρ hsym mode hbad st x st' h hs
    have hself := hρ _ (E.self_mem_subs (.op1 r f t k a))
    have hk : k ∉ bad mode := (hbad _ (E.self_mem_subs (.op1 r f t k a))).1
    have ha : ∀ s ∈ a.subs, ρ s.ref = some (strip s) := fun s hs => hρ s (by simp [E.subs, hs])
    have hsa : ∀ s ∈ a.xsubs, ∀ r n f t, s = .sym r n f t → n = r := fun s hs => hsym s (by simp [E.xsubs, hs])
    have hba : ∀ s ∈ a.subs, s.opKind ∉ bad mode ∧ s.opKind ∉ bad .cpp := fun s hs => hbad s (by simp [E.subs, hs])
    simp only [prX] at h
    split at h
    · split at h
      · cases h; exact ⟨.var hself, hs⟩
      · cases h
    · split at h
      · cases h
      · rename_i row hrow
        split at h
        · cases h
        · split at h
          · cases h
          · rename_i xa st1 hpa
            split at h
            · cases h
            · obtain ⟨da, hs1⟩ := iha ha hsa mode hba _ _ _ hpa hs
              exact finishX_den h (.t1 (rowFor_spec htb hk hrow) da) hself hs1
  | op2 r f t k a b iha ihb =>
    intro hρ hsym mode hbad st x st' h hs
    have hself := hρ _ (E.self_mem_subs (.op2 r f t k a b))
    have hk : k ∉ bad mode := (hbad _ (E.self_mem_subs (.op2 r f t k a b))).1
    have ha : ∀ s ∈ a.subs, ρ s.ref = some (strip s) := fun s hs => hρ s (by simp [E.subs, hs])
    have hsa : ∀ s ∈ a.xsubs, ∀ r n f t, s = .sym r n f t → n = r := fun s hs => hsym s (by simp [E.xsubs, hs])
    have hba : ∀ s ∈ a.subs, s.opKind ∉ bad mode ∧ s.opKind ∉ bad .cpp := fun s hs => hbad s (by simp [E.subs, hs])
    have hb : ∀ s ∈ b.subs, ρ s.ref = some (strip s) := fun s hs => hρ s (by simp [E.subs, hs])
    have hsb : ∀ s ∈ b.xsubs, ∀ r n f t, s = .sym r n f t → n = r := fun s hs => hsym s (by simp [E.xsubs, hs])
    have hbb : ∀ s ∈ b.subs, s.opKind ∉ bad mode ∧ s.opKind ∉ bad .cpp := fun s hs => hbad s (by simp [E.subs, hs])
    simp only [prX] at h
    split at h
    · split at h
      · cases h; exact ⟨.var hself, hs⟩
      · cases h
    · split at h
      · cases h
      · rename_i row hrow
        split at h
        · cases h
        · split at h
          · cases h
          · split at h
            · cases h
            · rename_i xa st1 hpa
              split at h
              · cases h
              · rename_i xb st2 hpb
                split at h
                · cases h
                · obtain ⟨da, hs1⟩ := iha ha hsa mode hba _ _ _ hpa hs
                  obtain ⟨db, hs2⟩ := ihb hb hsb mode hbb _ _ _ hpb hs1
                  exact finishX_den h (.t2 (rowFor_spec htb hk hrow) da db) hself hs2
  | op3 r f t k a b c iha ihb ihc =>
    intro hρ hsym mode hbad st x st' h hs
    have hself := hρ _ (E.self_mem_subs (.op3 r f t k a b c))
    have hk : k ∉ bad mode := (hbad _ (E.self_mem_subs (.op3 r f t k a b c))).1
    have ha : ∀ s ∈ a.subs, ρ s.ref = some (strip s) := fun s hs => hρ s (by simp [E.subs, hs])
    have hsa : ∀ s ∈ a.xsubs, ∀ r n f t, s = .sym r n f t → n = r := fun s hs => hsym s (by simp [E.xsubs, hs])
    have hba : ∀ s ∈ a.subs, s.opKind ∉ bad mode ∧ s.opKind ∉ bad .cpp := fun s hs => hbad s (by simp [E.subs, hs])
    have hb : ∀ s ∈ b.subs, ρ s.ref = some (strip s) := fun s hs => hρ s (by simp [E.subs, hs])
    have hsb : ∀ s ∈ b.xsubs, ∀ r n f t, s = .sym r n f t → n = r := fun s hs => hsym s (by simp [E.xsubs, hs])
    have hbb : ∀ s ∈ b.subs, s.opKind ∉ bad mode ∧ s.opKind ∉ bad .cpp := fun s hs => hbad s (by simp [E.subs, hs])
    have hc : ∀ s ∈ c.subs, ρ s.ref = some (strip s) := fun s hs => hρ s (by simp [E.subs, hs])
    have hsc : ∀ s ∈ c.xsubs, ∀ r n f t, s = .sym r n f t → n = r := fun s hs => hsym s (by simp [E.xsubs, hs])
    have hbc : ∀ s ∈ c.subs, s.opKind ∉ bad mode ∧ s.opKind ∉ bad .cpp := fun s hs => hbad s (by simp [E.subs, hs])
    simp only [prX] at h
    split at h
    · split at h
      · cases h; exact ⟨.var hself, hs⟩
      · cases h
    · split at h
      · cases h
      · rename_i row hrow
        split at h
        · cases h
        · split at h
          · cases h
          · split at h
            · cases h
            · split at h
              · cases h
              · rename_i xa st1 hpa
                split at h
                · cases h
                · rename_i xb st2 hpb
                  split at h
                  · cases h
                  · rename_i xc st3 hpc
                    split at h
                    · cases h
                    · obtain ⟨da, hs1⟩ := iha ha hsa mode hba _ _ _ hpa hs
                      obtain ⟨db, hs2⟩ := ihb hb hsb mode hbb _ _ _ hpb hs1
                      obtain ⟨dc, hs3⟩ := ihc hc hsc mode hbc _ _ _ hpc hs2
                      exact finishX_den h (.t3 (rowFor_spec htb hk hrow) da db dc) hself hs3

/-! ## XLA client: every variable is defined once, before it is used -/

def UsesIn (B : List String) (x : X) : Prop := (∀ r ∈ x.uses, r ∈ B) ∧ (∀ n ∈ x.names, n ∈ B)

theorem usesOK_iff (B : List String) (x : X) : usesOK B x = true ↔ UsesIn B x := by
  simp [usesOK, UsesIn, List.all_eq_true]

theorem UsesIn.mono {B B' : List String} {x : X} (h : UsesIn B x) (hsub : ∀ r ∈ B, r ∈ B') : UsesIn B' x :=
  ⟨fun r hr => hsub r (h.1 r hr), fun r hr => hsub r (h.2 r hr)⟩

theorem checkStmts_snoc : ∀ (S : List Stmt) (B0 B : List String) (s : Stmt),
    checkStmts B0 S = some B → usesOK B s.rhs = true → s.var ∉ B → checkStmts B0 (S ++ [s]) = some (s.var :: B) := by
  intro S
  induction S with
  | nil =>
    intro B0 B s h hu hv
    simp only [checkStmts, Option.some.injEq] at h
    subst h
    simp [checkStmts, hu, hv]
  | cons s0 S ih =>
    intro B0 B s h hu hv
    simp only [List.cons_append, checkStmts] at h ⊢
    split at h
    · rename_i hc
      simp only [hc, if_true]
      exact ih _ _ _ h hu hv
    · cases h

/-- The emitted statements are well formed and `defined_refs` is exactly the set of C++ variables. -/
structure InvX (B0 : List String) (S : List Stmt) (D B : List String) : Prop where
  chk : checkStmts B0 S = some B
  def_iff : ∀ r, r ∈ D ↔ r ∈ B

theorem finishX_late {types need r ty x st x' st'} (h : finishX types need r ty x st = .ok (x', st')) :
    st'.late = st.late := by
  unfold finishX at h
  split at h
  · split at h
    · cases h
    · split at h
      · cases h
      · simp only [Except.ok.injEq, Prod.mk.injEq] at h
        obtain ⟨_, rfl⟩ := h
        rfl
  · simp only [Except.ok.injEq, Prod.mk.injEq] at h
    obtain ⟨_, rfl⟩ := h
    rfl

theorem finishX_bind {types need r ty x st x' st' B0 B} (h : finishX types need r ty x st = .ok (x', st'))
    (hinv : InvX B0 st.stmts st.defined B) (hu : UsesIn B x) :
    ∃ B', InvX B0 st'.stmts st'.defined B' ∧ UsesIn B' x' ∧ (∀ r ∈ B, r ∈ B') := by
  unfold finishX at h
  split at h
  · split at h
    · cases h
    · rename_i hD
      split at h
      · cases h
      · rename_i t _
        simp only [Except.ok.injEq, Prod.mk.injEq] at h
        obtain ⟨rfl, rfl⟩ := h
        have hB : r ∉ B := fun hb => hD ((hinv.def_iff r).2 hb)
        refine ⟨r :: B, ⟨?_, ?_⟩, ?_, fun y hy => List.mem_cons_of_mem _ hy⟩
        · exact checkStmts_snoc _ _ _ ⟨t, r, x⟩ hinv.chk ((usesOK_iff _ _).2 hu) hB
        · intro y
          simp only [List.mem_cons]
          constructor
          · rintro (h1 | h1)
            · exact Or.inl h1
            · exact Or.inr ((hinv.def_iff y).1 h1)
          · rintro (h1 | h1)
            · exact Or.inl h1
            · exact Or.inr ((hinv.def_iff y).2 h1)
        · constructor
          · intro y hy
            simp only [X.uses, List.mem_singleton] at hy
            simp [hy]
          · intro y hy
            simp [X.names] at hy
  · simp only [Except.ok.injEq, Prod.mk.injEq] at h
    obtain ⟨rfl, rfl⟩ := h
    exact ⟨B, hinv, hu, fun y hy => hy⟩

theorem prX_late_mono {tb : XTabs} {need : String → Bool} :
    ∀ (e : E) mode st x st', prX tb need mode e st = .ok (x, st') → st.late ≤ st'.late := by
  intro e
  induction e with
  | sym r n f t =>
    intro mode st x st' h
    simp only [prX] at h
    split at h
    · split at h
      · cases h; exact Nat.le_refl _
      · cases h
    · rw [finishX_late h]; exact Nat.le_refl _
  | const r f t v like _ =>
    intro mode st x st' h
    simp only [prX] at h
    split at h
    · split at h
      · cases h; exact Nat.le_refl _
      · cases h
    · split at h
      · cases h
      · rename_i x1 st1 hc
        obtain ⟨x0, warn, _, hw⟩ := constX_ok hc
        rw [finishX_late h]
        rcases wrapX_ok hw with ⟨_, _, rfl⟩ | ⟨_, _, rfl⟩
        · exact Nat.le_add_right _ _
        · exact Nat.le_refl _
  | constE r f t val like ihv _ =>
    intro mode st x st' h
    simp only [prX] at h
    split at h
    · split at h
      · cases h; exact Nat.le_refl _
      · cases h
    · cases mode with
      | cpp => simp at h
      | main =>
        simp only at h
        split at h
        · cases h
        · rename_i xv st1 hpv
          have := ihv _ _ _ _ hpv
          rw [finishX_late h]
          exact Nat.le_trans this (Nat.le_add_right _ _)
  | op1 r f t k a iha =>
    intro mode st x st' h
    simp only [prX] at h
    split at h
    · split at h
      · cases h; exact Nat.le_refl _
      · cases h
    · split at h
      · cases h
      · split at h
        · cases h
        · split at h
          · cases h
          · rename_i xa st1 hpa
            split at h
            · cases h
            · rw [finishX_late h]; exact iha _ _ _ _ hpa
  | op2 r f t k a b iha ihb =>
    intro mode st x st' h
    simp only [prX] at h
    split at h
    · split at h
      · cases h; exact Nat.le_refl _
      · cases h
    · split at h
      · cases h
      · split at h
        · cases h
        · split at h
          · cases h
          · split at h
            · cases h
            · rename_i xa st1 hpa
              split at h
              · cases h
              · rename_i xb st2 hpb
                split at h
                · cases h
                · rw [finishX_late h]; exact Nat.le_trans (iha _ _ _ _ hpa) (ihb _ _ _ _ hpb)
  | op3 r f t k a b c iha ihb ihc =>
    intro mode st x st' h
    simp only [prX] at h
    split at h
    · split at h
      · cases h; exact Nat.le_refl _
      · cases h
    · split at h
      · cases h
      · split at h
        · cases h
        · split at h
          · cases h
          · split at h
            · cases h
            · split at h
              · cases h
              · rename_i xa st1 hpa
                split at h
                · cases h
                · rename_i xb st2 hpb
                  split at h
                  · cases h
                  · rename_i xc st3 hpc
                    split at h
                    · cases h
                    · rw [finishX_late h]
                      exact Nat.le_trans (iha _ _ _ _ hpa) (Nat.le_trans (ihb _ _ _ _ hpb) (ihc _ _ _ _ hpc))

theorem pickInf_leaf (t : String) (x : X) (h : x.uses = [] ∧ x.names = []) :
    (pickInf t x).uses = [] ∧ (pickInf t x).names = [] := by
  unfold pickInf
  split
  · simp [X.uses, X.names]
  · split
    · simp [X.uses, X.names]
    · exact h

theorem constVal_leaf {T mode ty v x warn} (h : constVal T mode ty v = .ok (x, warn)) :
    x.uses = [] ∧ x.names = [] := by
  unfold constVal at h
  cases v with
  | lit fmt str =>
    cases mode <;> simp only [Except.ok.injEq, Prod.mk.injEq] at h <;> obtain ⟨rfl, _⟩ := h <;> simp [X.uses, X.names]
  | named s =>
    simp only at h
    split at h
    · simp only [Except.ok.injEq, Prod.mk.injEq] at h
      obtain ⟨rfl, _⟩ := h
      simp [X.uses, X.names]
    · split at h
      · simp only [Except.ok.injEq, Prod.mk.injEq] at h
        obtain ⟨rfl, _⟩ := h
        simp [X.uses, X.names]
      · split at h
        · cases h
        · split at h
          · cases h
          · simp only [Except.ok.injEq, Prod.mk.injEq] at h
            obtain ⟨rfl, _⟩ := h
            simp [X.uses, X.names]

theorem lateOf_zero {st : XSt} {r : String} (h : lateOf st r = 0) : r ∈ st.defined := by
  unfold lateOf at h
  split at h
  · assumption
  · cases h

/-- The statement proved for every sub-expression by induction. -/
def GoodX (tb : XTabs) (need : String → Bool) (argRefs B0 : List String) (e : E) : Prop :=
  (∀ s ∈ e.xsubs, s.isSym = true → s.ref ∈ argRefs) →
  ∀ mode (st : XSt) (x : X) (st' : XSt) (B : List String),
    prX tb need mode e st = .ok (x, st') → InvX B0 st.stmts st.defined B → (∀ r ∈ argRefs, r ∈ B) → st'.late = 0 →
    ∃ B', InvX B0 st'.stmts st'.defined B' ∧ UsesIn B' x ∧ (∀ r ∈ B, r ∈ B')

theorem var_uses {B : List String} {r : String} (h : r ∈ B) : UsesIn B (.var r) := by
  constructor
  · intro y hy
    simp only [X.uses, List.mem_singleton] at hy
    exact hy ▸ h
  · intro y hy
    simp [X.names] at hy

theorem goodX_all {tb : XTabs} {need : String → Bool} {argRefs B0 : List String} : ∀ e, GoodX tb need argRefs B0 e := by
  intro e
  induction e with
  | sym r n f t =>
    intro hcl mode st x st' B h hinv hargs _
    have hr : r ∈ st.defined := (hinv.def_iff r).2 (hargs r (hcl _ (E.self_mem_xsubs (.sym r n f t)) rfl))
    simp only [prX, hr, if_true] at h
    split at h
    · cases h
      exact ⟨B, hinv, var_uses ((hinv.def_iff r).1 hr), fun y hy => hy⟩
    · cases h
  | const r f t v like _ =>
    intro _ mode st x st' B h hinv hargs hlate
    simp only [prX] at h
    split at h
    · rename_i hD
      split at h
      · cases h
        exact ⟨B, hinv, var_uses ((hinv.def_iff r).1 hD), fun y hy => hy⟩
      · cases h
    · split at h
      · cases h
      · rename_i x1 st1 hc
        obtain ⟨x0, warn, hv, hw⟩ := constX_ok hc
        have hleaf := constVal_leaf hv
        have hl1 : st1.late = 0 := by rw [← finishX_late h]; exact hlate
        rcases wrapX_ok hw with ⟨_, rfl, rfl⟩ | ⟨_, ⟨t', rfl⟩, rfl⟩
        · have hz : lateOf st like.ref = 0 := by simp only at hl1; omega
          have hlB : like.ref ∈ B := (hinv.def_iff _).1 (lateOf_zero hz)
          refine finishX_bind h ⟨hinv.chk, hinv.def_iff⟩ ⟨?_, ?_⟩
          · intro y hy
            simp only [X.uses, hleaf.1, List.mem_singleton, List.mem_cons, List.not_mem_nil, or_false] at hy
            exact hy ▸ hlB
          · intro y hy
            simp [X.names, hleaf.2] at hy
        · have hp := pickInf_leaf t' x0 hleaf
          refine finishX_bind h ⟨hinv.chk, hinv.def_iff⟩ ⟨?_, ?_⟩
          · intro y hy; simp [hp.1] at hy
          · intro y hy; simp [hp.2] at hy
  | constE r f t val like ihv _ =>
    intro hcl mode st x st' B h hinv hargs hlate
    have hclv : ∀ s ∈ val.xsubs, s.isSym = true → s.ref ∈ argRefs := fun s hs => hcl s (by simp [E.xsubs, hs])
    simp only [prX] at h
    split at h
    · rename_i hD
      split at h
      · cases h
        exact ⟨B, hinv, var_uses ((hinv.def_iff r).1 hD), fun y hy => hy⟩
      · cases h
    · cases mode with
      | cpp => simp at h
      | main =>
        simp only at h
        split at h
        · cases h
        · rename_i xv st1 hpv
          have hl : st1.late + lateOf st1 like.ref = 0 := by
            have := finishX_late h
            simp only at this
            omega
          have hl1 : st1.late = 0 := by omega
          have hz : lateOf st1 like.ref = 0 := by omega
          obtain ⟨B1, hinv1, hu1, hsub1⟩ := ihv hclv .cpp st xv st1 B hpv hinv hargs hl1
          have hlB : like.ref ∈ B1 := (hinv1.def_iff _).1 (lateOf_zero hz)
          obtain ⟨B2, hinv2, hu2, hsub2⟩ :=
            finishX_bind (B0 := B0) (B := B1) h ⟨hinv1.chk, hinv1.def_iff⟩
              ⟨by
                intro y hy
                simp only [X.uses, List.mem_cons] at hy
                rcases hy with h1 | h1
                · exact h1 ▸ hlB
                · exact hu1.1 y h1,
               by
                intro y hy
                simp only [X.names] at hy
                exact hu1.2 y hy⟩
          exact ⟨B2, hinv2, hu2, fun y hy => hsub2 y (hsub1 y hy)⟩
  | op1 r f t k a iha =>
    intro hcl mode st x st' B h hinv hargs hlate
    have hcla : ∀ s ∈ a.xsubs, s.isSym = true → s.ref ∈ argRefs := fun s hs => hcl s (by simp [E.xsubs, hs])
    simp only [prX] at h
    split at h
    · rename_i hD
      split at h
      · cases h
        exact ⟨B, hinv, var_uses ((hinv.def_iff r).1 hD), fun y hy => hy⟩
      · cases h
    · split at h
      · cases h
      · split at h
        · cases h
        · split at h
          · cases h
          · rename_i xa st1 hpa
            split at h
            · cases h
            · have hl1 : st1.late = 0 := by rw [← finishX_late h]; exact hlate
              obtain ⟨B1, hinv1, hu1, hsub1⟩ := iha hcla mode st xa st1 B hpa hinv hargs hl1
              obtain ⟨B2, hinv2, hu2, hsub2⟩ := finishX_bind h hinv1 (x := .t1 _ _ xa) ⟨hu1.1, hu1.2⟩
              exact ⟨B2, hinv2, hu2, fun y hy => hsub2 y (hsub1 y hy)⟩
  | op2 r f t k a b iha ihb =>
    intro hcl mode st x st' B h hinv hargs hlate
    have hcla : ∀ s ∈ a.xsubs, s.isSym = true → s.ref ∈ argRefs := fun s hs => hcl s (by simp [E.xsubs, hs])
    have hclb : ∀ s ∈ b.xsubs, s.isSym = true → s.ref ∈ argRefs := fun s hs => hcl s (by simp [E.xsubs, hs])
    simp only [prX] at h
    split at h
    · rename_i hD
      split at h
      · cases h
        exact ⟨B, hinv, var_uses ((hinv.def_iff r).1 hD), fun y hy => hy⟩
      · cases h
    · split at h
      · cases h
      · split at h
        · cases h
        · split at h
          · cases h
          · split at h
            · cases h
            · rename_i xa st1 hpa
              split at h
              · cases h
              · rename_i xb st2 hpb
                split at h
                · cases h
                · have hl2 : st2.late = 0 := by rw [← finishX_late h]; exact hlate
                  have hl1 : st1.late = 0 := by have := prX_late_mono b _ _ _ _ hpb; omega
                  obtain ⟨B1, hinv1, hu1, hsub1⟩ := iha hcla mode st xa st1 B hpa hinv hargs hl1
                  obtain ⟨B2, hinv2, hu2, hsub2⟩ :=
                    ihb hclb mode st1 xb st2 B1 hpb hinv1 (fun y hy => hsub1 y (hargs y hy)) hl2
                  have hu1' := hu1.mono hsub2
                  obtain ⟨B3, hinv3, hu3, hsub3⟩ := finishX_bind h hinv2 (x := .t2 _ _ xa xb)
                    ⟨by
                      intro y hy
                      simp only [X.uses, List.mem_append] at hy
                      rcases hy with h1 | h1
                      · exact hu1'.1 y h1
                      · exact hu2.1 y h1,
                     by
                      intro y hy
                      simp only [X.names, List.mem_append] at hy
                      rcases hy with h1 | h1
                      · exact hu1'.2 y h1
                      · exact hu2.2 y h1⟩
                  exact ⟨B3, hinv3, hu3, fun y hy => hsub3 y (hsub2 y (hsub1 y hy))⟩
  | op3 r f t k a b c iha ihb ihc =>
    intro hcl mode st x st' B h hinv hargs hlate
    have hcla : ∀ s ∈ a.xsubs, s.isSym = true → s.ref ∈ argRefs := fun s hs => hcl s (by simp [E.xsubs, hs])
    have hclb : ∀ s ∈ b.xsubs, s.isSym = true → s.ref ∈ argRefs := fun s hs => hcl s (by simp [E.xsubs, hs])
    have hclc : ∀ s ∈ c.xsubs, s.isSym = true → s.ref ∈ argRefs := fun s hs => hcl s (by simp [E.xsubs, hs])
    simp only [prX] at h
    split at h
    · rename_i hD
      split at h
      · cases h
        exact ⟨B, hinv, var_uses ((hinv.def_iff r).1 hD), fun y hy => hy⟩
      · cases h
    · split at h
      · cases h
      · split at h
        · cases h
        · split at h
          · cases h
          · split at h
            · cases h
            · split at h
              · cases h
              · rename_i xa st1 hpa
                split at h
                · cases h
                · rename_i xb st2 hpb
                  split at h
                  · cases h
                  · rename_i xc st3 hpc
                    split at h
                    · cases h
                    · have hl3 : st3.late = 0 := by rw [← finishX_late h]; exact hlate
                      have hl2 : st2.late = 0 := by have := prX_late_mono c _ _ _ _ hpc; omega
                      have hl1 : st1.late = 0 := by have := prX_late_mono b _ _ _ _ hpb; omega
                      obtain ⟨B1, hinv1, hu1, hsub1⟩ := iha hcla mode st xa st1 B hpa hinv hargs hl1
                      obtain ⟨B2, hinv2, hu2, hsub2⟩ :=
                        ihb hclb mode st1 xb st2 B1 hpb hinv1 (fun y hy => hsub1 y (hargs y hy)) hl2
                      obtain ⟨B3, hinv3, hu3, hsub3⟩ :=
                        ihc hclc mode st2 xc st3 B2 hpc hinv2 (fun y hy => hsub2 y (hsub1 y (hargs y hy))) hl3
                      have hu1' := hu1.mono (fun y hy => hsub3 y (hsub2 y hy))
                      have hu2' := hu2.mono hsub3
                      obtain ⟨B4, hinv4, hu4, hsub4⟩ := finishX_bind h hinv3 (x := .t3 _ _ xa xb xc)
                        ⟨by
                          intro y hy
                          simp only [X.uses, List.mem_append] at hy
                          rcases hy with (h1 | h1) | h1
                          · exact hu1'.1 y h1
                          · exact hu2'.1 y h1
                          · exact hu3.1 y h1,
                         by
                          intro y hy
                          simp only [X.names, List.mem_append] at hy
                          rcases hy with (h1 | h1) | h1
                          · exact hu1'.2 y h1
                          · exact hu2'.2 y h1
                          · exact hu3.2 y h1⟩
                      exact ⟨B4, hinv4, hu4, fun y hy => hsub4 y (hsub3 y (hsub2 y (hsub1 y hy)))⟩

theorem argTypes_names (types : List (String × String)) : ∀ (args : List Arg) (ps : List (String × String)),
    argTypes types args = .ok ps → ps.map (·.2) = args.map (·.name) := by
  intro args
  induction args with
  | nil => intro ps h; simp only [argTypes, Except.ok.injEq] at h; subst h; rfl
  | cons a as ih =>
    intro ps h
    simp only [argTypes] at h
    split at h
    · cases h
    · split at h
      · cases h
      · rename_i r hr
        simp only [Except.ok.injEq] at h
        subst h
        simp [ih r hr]

/-- **bind_once for the XLA client printer** (whole function): when no `ScalarLike(like, ..)` was
emitted ahead of the definition of its `like` variable (`late = 0`), the emitted C++ defines every
variable once and uses only parameters and variables defined in earlier statements. -/
theorem bindX_top (tb : XTabs) (f : Fn)
    (closed : ∀ s ∈ f.body.xsubs, s.isSym = true → s.ref ∈ f.argRefs)
    (hnames : ∀ a ∈ f.args, a.name = a.ref)
    (o : XOut) (h : printX tb f = .ok o) (hlate : o.late = 0) : checkFnX o = true := by
  unfold printX at h
  split at h
  · cases h
  · rename_i params hparams
    split at h
    · cases h
    · rename_i x st hp
      split at h
      · cases h
      · rename_i rt _
        cases h
        have hps : params.map (·.2) = f.argRefs := by
          rw [argTypes_names _ _ _ hparams]
          unfold Fn.argRefs
          exact List.map_congr_left hnames
        have hinv0 : InvX f.argRefs ([] : List Stmt) f.argRefs.reverse f.argRefs :=
          ⟨rfl, fun r => List.mem_reverse⟩
        obtain ⟨B', hinv, hu, _⟩ :=
          goodX_all (tb := tb) (need := needFn f) (argRefs := f.argRefs) (B0 := f.argRefs) f.body closed .main
            ⟨f.argRefs.reverse, [], 0, 0⟩ x st f.argRefs hp hinv0 (fun r hr => hr) hlate
        simp only [checkFnX, hps, hinv.chk]
        exact (usesOK_iff _ _).2 hu

/-! ## Whole-function statements -/

theorem denS_top {tb bad} {ρ : String → Option T} (htb : STableOK bad tb) (f : Fn)
    (hρ : ∀ s ∈ f.body.subs, ρ s.ref = some (strip s)) (hbad : ∀ s ∈ f.body.subs, s.opKind ∉ bad)
    (o : SOut) (h : printS tb f = .ok o) : DenS ρ o.pattern (strip f.body) := by
  unfold printS at h
  split at h
  · cases h
  · rename_i p st hp
    cases h
    exact denS_prS htb f.body hρ hbad _ _ _ hp

theorem denX_top {tb : XTabs} {bad : Mode → List String} {ρ : String → Option T} (htb : XTableOK bad tb) (f : Fn)
    (hρ : ∀ s ∈ f.body.subs, ρ s.ref = some (strip s))
    (hsym : ∀ s ∈ f.body.xsubs, ∀ r n fl t, s = .sym r n fl t → n = r)
    (hbad : ∀ s ∈ f.body.subs, s.opKind ∉ bad .main ∧ s.opKind ∉ bad .cpp)
    (o : XOut) (h : printX tb f = .ok o) : DenX ρ .main o.ret (strip f.body) ∧ StmtsOK ρ o.stmts := by
  unfold printX at h
  split at h
  · cases h
  · split at h
    · cases h
    · rename_i x st hp
      split at h
      · cases h
      · cases h
        exact denX_prX htb f.body hρ hsym .main hbad _ _ _ hp (by intro s hs; simp at hs)

/-- The environment that reads every name as the (first) sub-expression carrying it. -/
def refEnv (body : E) (r : String) : Option T := (body.subs.find? (fun t => t.ref == r)).map strip

/-- Reference names are consistent: sub-expressions with the same name denote the same tree. -/
def RefConsistent (body : E) : Prop := ∀ s ∈ body.subs, ∀ t ∈ body.subs, s.ref = t.ref → strip s = strip t

theorem refEnv_ok (body : E) (hrc : RefConsistent body) : ∀ s ∈ body.subs, refEnv body s.ref = some (strip s) := by
  intro s hs
  unfold refEnv
  cases hf : body.subs.find? (fun t => t.ref == s.ref) with
  | none =>
    have := List.find?_eq_none.1 hf s hs
    simp at this
  | some t =>
    have h1 := List.find?_some hf
    have h2 := List.mem_of_find?_eq_some hf
    simp only [beq_iff_eq] at h1
    simp [hrc t h2 s hs h1]

/-! ## Alternative context: folding constants preserves the value -/

theorem evalR_mkConst {V : Type} (I : Interp V) (env : String → V) (alt : Bool) (v : String) (like : R) :
    evalR I env (mkConst alt v like) = I.lit v := by
  cases alt <;> rfl

theorem evalR_mkOp1 {V : Type} (I : Interp V) (env : String → V) (alt : Bool) (k : String) (a : R) :
    evalR I env (mkOp1 alt k a) = I.f1 k (evalR I env a) := by
  unfold mkOp1
  cases alt
  · rfl
  · simp only [if_true]; split <;> simp [evalR, evalA]

theorem evalR_mkOp2 {V : Type} (I : Interp V) (env : String → V) (alt : Bool) (k : String) (a b : R) :
    evalR I env (mkOp2 alt k a b) = I.f2 k (evalR I env a) (evalR I env b) := by
  unfold mkOp2
  cases alt
  · rfl
  · simp only [if_true]; split <;> simp [evalR, evalA]

theorem evalR_mkOp3 {V : Type} (I : Interp V) (env : String → V) (alt : Bool) (k : String) (a b c : R) :
    evalR I env (mkOp3 alt k a b c) = I.f3 k (evalR I env a) (evalR I env b) (evalR I env c) := by
  unfold mkOp3
  cases alt
  · rfl
  · simp only [if_true]; split <;> simp [evalR, evalA]

end FAVerif.PrinterHLO
