/-
No-overflow lemmas for the softfloat: when the correctly rounded exact result does not exceed the largest finite
value `Lmax`, the operation returns a finite pattern.  (The `*_correct` theorems assume finiteness of the result; these
lemmas establish it from a bound on the rational side.)
-/
import FAVerif.Lemmas.SoftDiv
import FAVerif.Lemmas.SoftSqrt
import FAVerif.Lemmas.EFTBits

namespace FAVerif.SoftRound
open FAVerif.FP FAVerif.FPQ FAVerif.Refine

/-- the largest finite value of the format -/
def Lmax (f : Fmt) : ℚ := ((2 : ℚ) ^ f.p - 1) * 2 ^ f.emaxUlp

lemma expMax_ge3 (f : Fmt) (h : WF f) : 3 ≤ f.expMax := by
  have : 2 ^ 2 ≤ 2 ^ f.ew := Nat.pow_le_pow_right (by norm_num) h.hew
  have h2 : 2 ^ f.ew - 1 = f.expMax := rfl
  omega

/-- **no overflow below Lmax**: the rounding core's result packs to a finite pattern -/
theorem roundFin_finite_of_isRNE (f : Fmt) (h : WF f) (s : Bool) (m : Nat) (hm : m ≠ 0) (e : Int) (st : Bool)
    {x : ℚ} (hx : 0 < x)
    (hrne : IsRNE (qf f h.hp) x ((roundCore f m e st).1 : ℤ) (roundCore f m e st).2)
    (hb : rne (qf f h.hp) x ≤ Lmax f) : isFiniteBits f (roundFin f s m e st) = true := by
  obtain ⟨hc1, hc2, hc3⟩ := canon_of_isRNE f h hx hrne
  have hval : (((roundCore f m e st).1 : ℤ) : ℚ) * 2 ^ (roundCore f m e st).2 = rne (qf f h.hp) x := (rne_pos hx hrne).symm
  set r := roundCore f m e st with hr
  have hp := h.hp
  have hfb : f.fracBits + 1 = f.p := by simp [Fmt.fracBits]; omega
  have hpp : (2 : ℕ) ^ f.p = 2 * 2 ^ f.fracBits := by rw [← hfb, pow_succ]; ring
  have hx3 := expMax_ge3 f h
  have hemax : f.emaxUlp = (f.expMax : Int) - 2 + f.emin := by unfold Fmt.emaxUlp; omega
  have hLlt : Lmax f < 2 ^ f.p * 2 ^ f.emaxUlp := by
    unfold Lmax
    have : (0 : ℚ) < 2 ^ f.emaxUlp := by positivity
    nlinarith
  have hvalL : ((r.1 : ℤ) : ℚ) * 2 ^ r.2 < 2 ^ f.p * 2 ^ f.emaxUlp := by rw [hval]; exact lt_of_le_of_lt hb hLlt
  unfold roundFin
  simp only [hm, if_false, ← hr]
  by_cases htop : r.1 = 2 ^ f.p
  · simp only [htop, if_true]
    have hnsub : ¬ (2 ^ f.fracBits < 2 ^ f.fracBits) := lt_irrefl _
    have hlt : r.2 < f.emaxUlp := by
      rw [htop] at hvalL
      push_cast at hvalL
      have hP : (0 : ℚ) < 2 ^ f.p := by positivity
      have := lt_of_mul_lt_mul_left hvalL hP.le
      exact (zpow_lt_zpow_iff_right₀ (by norm_num : (1 : ℚ) < 2)).mp this
    have hcan : Canon f (2 ^ f.fracBits) (r.2 + 1) :=
      ⟨by rw [hpp]; have : 0 < 2 ^ f.fracBits := by positivity
          omega, by omega, fun hh => absurd hh hnsub, by rw [hemax] at hlt; omega⟩
    exact finite_of_decode f _ _ _ _ (decode_packFin f h s _ _ hcan)
  · simp only [htop, if_false]
    have hlt : r.1 < 2 ^ f.p := lt_of_le_of_ne hc1 htop
    have hcan : Canon f r.1 r.2 := by
      refine ⟨hlt, hc2, hc3, ?_⟩
      by_cases hsub : r.1 < 2 ^ f.fracBits
      · rw [hc3 hsub]; omega
      · push Not at hsub
        have h1 : (2 : ℚ) ^ (f.p - 1) * 2 ^ r.2 ≤ ((r.1 : ℤ) : ℚ) * 2 ^ r.2 := by
          apply mul_le_mul_of_nonneg_right _ (by positivity)
          have : ((2 ^ f.fracBits : ℕ) : ℚ) ≤ (r.1 : ℚ) := by exact_mod_cast hsub
          simp only [Fmt.fracBits] at this
          push_cast at this ⊢
          exact this
        have h2 : (2 : ℚ) ^ (f.p - 1) * 2 ^ r.2 < 2 ^ f.p * 2 ^ f.emaxUlp := lt_of_le_of_lt h1 hvalL
        have h3 : (2 : ℚ) ^ (((f.p - 1 : ℕ) : ℤ) + r.2) < 2 ^ ((f.p : ℤ) + f.emaxUlp) := by
          rw [zpow_add₀ (by norm_num : (2 : ℚ) ≠ 0), zpow_add₀ (by norm_num : (2 : ℚ) ≠ 0), zpow_natCast, zpow_natCast]
          exact h2
        have h4 := (zpow_lt_zpow_iff_right₀ (by norm_num : (1 : ℚ) < 2)).mp h3
        rw [hemax] at h4
        push_cast [Nat.cast_sub (by omega : 1 ≤ f.p)] at h4
        omega
    exact finite_of_decode f _ _ _ _ (decode_packFin f h s _ _ hcan)

end FAVerif.SoftRound

namespace FAVerif.SoftRound
open FAVerif.FP FAVerif.FPQ FAVerif.Refine

lemma Lmax_rep (f : Fmt) (h : WF f) : Rep (qf f h.hp) (Lmax f) := by
  have hx3 := expMax_ge3 f h
  refine ⟨2 ^ f.p - 1, f.emaxUlp, ?_, ?_, ?_⟩
  · unfold Lmax; push_cast; ring
  · have : (1 : ℤ) ≤ 2 ^ f.p := one_le_pow₀ (by norm_num)
    show |((2 : ℤ) ^ f.p - 1)| < 2 ^ f.p
    rw [abs_of_nonneg (by omega)]; omega
  · show f.emin ≤ f.emaxUlp
    unfold Fmt.emaxUlp; omega

lemma Lmax_pos (f : Fmt) (h : WF f) : 0 < Lmax f := by
  unfold Lmax
  have : (2 : ℚ) ^ 2 ≤ 2 ^ f.p := pow_le_pow_right₀ (by norm_num) h.hp
  have h2 : (0 : ℚ) < 2 ^ f.emaxUlp := by positivity
  nlinarith

/-- rne never exceeds Lmax on arguments that do not -/
lemma rne_le_Lmax (f : Fmt) (h : WF f) {x : ℚ} (hx : x ≤ Lmax f) : rne (qf f h.hp) x ≤ Lmax f :=
  rn_le_of_rep (isRN_rne _) (Lmax_rep f h) hx

lemma isFinite_zeroBits (f : Fmt) (h : WF f) (s : Bool) : isFiniteBits f (f.zeroBits s) = true :=
  finite_of_decode f _ _ _ _ (decode_zeroBits f h s)

/-- signed non-sticky rounding stays finite when the rounded magnitude does not exceed Lmax -/
theorem roundFin_signed_finite (f : Fmt) (h : WF f) (M : ℤ) (hM : M ≠ 0) (e : Int)
    (hb : |rne (qf f h.hp) ((M : ℚ) * 2 ^ e)| ≤ Lmax f) :
    isFiniteBits f (roundFin f (decide (M < 0)) M.natAbs e false) = true := by
  have hm : 0 < M.natAbs := Int.natAbs_pos.2 hM
  have hx : (0 : ℚ) < (M.natAbs : ℚ) * 2 ^ e := by
    have : (0 : ℚ) < (M.natAbs : ℚ) := by exact_mod_cast hm
    positivity
  apply roundFin_finite_of_isRNE f h _ _ (by omega) e false hx (roundCore_isRNE f h.hp _ hm e)
  have habs : ((M.natAbs : ℕ) : ℚ) = |(M : ℚ)| := by rw [Nat.cast_natAbs, Int.cast_abs]
  rw [habs]
  rcases lt_or_ge M 0 with hneg | hpos
  · have : |(M : ℚ)| = -(M : ℚ) := abs_of_neg (by exact_mod_cast hneg)
    rw [this, show -(M : ℚ) * 2 ^ e = -((M : ℚ) * 2 ^ e) by ring, rne_neg]
    exact le_trans (neg_le_abs _) hb
  · have : |(M : ℚ)| = (M : ℚ) := abs_of_nonneg (by exact_mod_cast hpos)
    rw [this]
    exact le_trans (le_abs_self _) hb

theorem add_finite (f : Fmt) (h : WF f) (a b : Nat) (s t : Bool) (m n : Nat) (e e' : Int)
    (ha : decode f a = .fin s m e) (hb : decode f b = .fin t n e')
    (hbd : |rne (qf f h.hp) (valQ s m e + valQ t n e')| ≤ Lmax f) : isFiniteBits f (FP.add f a b) = true := by
  set e0 := min e e' with he0
  set M : Int := sInt s (m * 2 ^ (e - e0).toNat) + sInt t (n * 2 ^ (e' - e0).toNat) with hMdef
  have hsum : valQ s m e + valQ t n e' = (M : ℚ) * 2 ^ e0 := by
    have h1 : e = e0 + ((e - e0).toNat : ℤ) := by have := min_le_left e e'; omega
    have h2 : e' = e0 + ((e' - e0).toNat : ℤ) := by have := min_le_right e e'; omega
    rw [hMdef]; push_cast
    rw [sInt_val, sInt_val]
    simp only [valQ]
    conv_lhs => rw [h1, h2]
    rw [zpow_add₀ (by norm_num : (2 : ℚ) ≠ 0), zpow_add₀ (by norm_num : (2 : ℚ) ≠ 0), zpow_natCast, zpow_natCast]
    push_cast; ring
  have hadd : FP.add f a b = if M = 0 then f.zeroBits (s && t) else roundFin f (decide (M < 0)) M.natAbs e0 false := by
    simp only [FP.add, ha, hb, ← he0, ← hMdef]
  rw [hadd]
  by_cases hM : M = 0
  · simp only [hM, if_true]; exact isFinite_zeroBits f h _
  · simp only [hM, if_false]
    rw [hsum] at hbd
    exact roundFin_signed_finite f h M hM e0 hbd

theorem sub_finite (f : Fmt) (h : WF f) (a b : Nat) (s t : Bool) (m n : Nat) (e e' : Int)
    (ha : decode f a = .fin s m e) (hb : decode f b = .fin t n e')
    (hbd : |rne (qf f h.hp) (valQ s m e - valQ t n e')| ≤ Lmax f) : isFiniteBits f (FP.sub f a b) = true := by
  have hnan : isNaNBits f b = false := by simp [isNaNBits, hb, V.isNaN]
  have hsub : FP.sub f a b = FP.add f a (FP.neg f b) := by simp [FP.sub, hnan]
  rw [hsub]
  have hnb := decode_neg f h b t n e' hb
  apply add_finite f h a (FP.neg f b) s (!t) m n e e' ha hnb
  rw [valQ_neg, ← sub_eq_add_neg]; exact hbd

theorem mul_finite (f : Fmt) (h : WF f) (a b : Nat) (s t : Bool) (m n : Nat) (e e' : Int)
    (ha : decode f a = .fin s m e) (hb : decode f b = .fin t n e')
    (hbd : |rne (qf f h.hp) (valQ s m e * valQ t n e')| ≤ Lmax f) : isFiniteBits f (FP.mul f a b) = true := by
  have hmul : FP.mul f a b = roundFin f (s != t) (m * n) (e + e') false := by
    simp only [FP.mul, ha, hb]
  rw [hmul]
  have hprod : valQ s m e * valQ t n e' = (if (s != t) then -1 else 1) * ((m * n : ℕ) : ℚ) * 2 ^ (e + e') := by
    rw [zpow_add₀ (by norm_num : (2 : ℚ) ≠ 0)]
    cases s <;> cases t <;> simp [valQ] <;> ring
  by_cases hz : m * n = 0
  · simp only [roundFin, hz, if_true]; exact isFinite_zeroBits f h _
  · have hpos : 0 < m * n := Nat.pos_of_ne_zero hz
    have hx : (0 : ℚ) < ((m * n : ℕ) : ℚ) * 2 ^ (e + e') := by
      have : (0 : ℚ) < ((m * n : ℕ) : ℚ) := by exact_mod_cast hpos
      positivity
    apply roundFin_finite_of_isRNE f h _ _ hz _ false hx (roundCore_isRNE f h.hp _ hpos _)
    rw [hprod] at hbd
    cases hst : (s != t)
    · simp only [hst, Bool.false_eq_true, if_false, one_mul] at hbd
      exact le_trans (le_abs_self _) hbd
    · simp only [hst, if_true] at hbd
      rw [show (-1 : ℚ) * ((m * n : ℕ) : ℚ) * 2 ^ (e + e') = -(((m * n : ℕ) : ℚ) * 2 ^ (e + e')) by ring, rne_neg, abs_neg] at hbd
      exact le_trans (le_abs_self _) hbd

end FAVerif.SoftRound

namespace FAVerif.SoftRound
open FAVerif.FP FAVerif.FPQ FAVerif.Refine

theorem div_finite (f : Fmt) (h : WF f) (a b : Nat) (s t : Bool) (m n : Nat) (e e' : Int)
    (ha : decode f a = .fin s m e) (hb : decode f b = .fin t n e') (hn : n ≠ 0)
    (hbd : |rne (qf f h.hp) (valQ s m e / valQ t n e')| ≤ Lmax f) : isFiniteBits f (FP.div f a b) = true := by
  by_cases hm : m = 0
  · have hdiv : FP.div f a b = f.zeroBits (s != t) := by simp [FP.div, ha, hb, hn, hm]
    rw [hdiv]; exact isFinite_zeroBits f h _
  · set k := f.p + 2 + bitLen n - bitLen m with hk
    set num := m * 2 ^ k with hnum
    have hdiv : FP.div f a b = roundFin f (s != t) (num / n) (e - e' - (k : Int)) (num % n != 0) := by
      simp [FP.div, ha, hb, hn, hm, ← hk, ← hnum]
    rw [hdiv]
    have hmpos : 0 < m := Nat.pos_of_ne_zero hm
    have hnpos : 0 < n := Nat.pos_of_ne_zero hn
    obtain ⟨hm1, hm2, hm3⟩ := bitLen_bounds hmpos
    obtain ⟨hn1, hn2, hn3⟩ := bitLen_bounds hnpos
    have hqbig : 2 ^ (f.p + 1) ≤ num / n := by
      rw [Nat.le_div_iff_mul_le hnpos]
      have hk' : f.p + 2 + bitLen n ≤ bitLen m + k := by omega
      calc 2 ^ (f.p + 1) * n ≤ 2 ^ (f.p + 1) * 2 ^ bitLen n := Nat.mul_le_mul_left _ hn2.le
        _ = 2 ^ (f.p + 1 + bitLen n) := (pow_add 2 (f.p + 1) (bitLen n)).symm
        _ ≤ 2 ^ (bitLen m - 1 + k) := Nat.pow_le_pow_right (by norm_num) (by omega)
        _ = 2 ^ (bitLen m - 1) * 2 ^ k := pow_add 2 (bitLen m - 1) k
        _ ≤ m * 2 ^ k := Nat.mul_le_mul_right _ hm1
    have hqpos : 0 < num / n := lt_of_lt_of_le (by positivity) hqbig
    have hq0 : num / n ≠ 0 := by omega
    have hlen : f.p + 2 ≤ bitLen (num / n) := by
      have : (num / n).log2 ≥ f.p + 1 := (Nat.le_log2 hq0).2 hqbig
      simp only [bitLen, hq0, if_false]; omega
    have hue := zpow_two_pos (e - e' - (k : Int))
    have hnq : (0 : ℚ) < n := by exact_mod_cast hnpos
    set x : ℚ := ((num : ℚ) / n) * 2 ^ (e - e' - (k : Int)) with hxdef
    have hxpos : 0 < x := by
      have : (0 : ℚ) < num := by simp only [hnum]; positivity
      positivity
    have hquot : valQ s m e / valQ t n e' = (if (s != t) then -1 else 1) * x := by
      have hk2 : (2 : ℚ) ^ (e - e' - (k : Int)) = 2 ^ e / 2 ^ e' / 2 ^ k := by
        rw [zpow_sub₀ (by norm_num : (2 : ℚ) ≠ 0), zpow_sub₀ (by norm_num : (2 : ℚ) ≠ 0), zpow_natCast]
      have hne' := (zpow_two_pos e').ne'
      rw [hxdef, hk2, hnum]
      push_cast
      cases s <;> cases t <;> simp [valQ] <;> field_simp
    have hdm : num = (num / n) * n + num % n := by
      have := Nat.div_add_mod num n; rw [Nat.mul_comm] at this; omega
    have hrem : num % n < n := Nat.mod_lt _ hnpos
    have hrne : IsRNE (qf f h.hp) x ((roundCore f (num / n) (e - e' - k) (num % n != 0)).1 : ℤ)
        (roundCore f (num / n) (e - e' - k) (num % n != 0)).2 := by
      by_cases hr0 : num % n = 0
      · have hst : (num % n != 0) = false := by simp [hr0]
        rw [hst]
        have hx' : x = ((num / n : ℕ) : ℚ) * 2 ^ (e - e' - (k : Int)) := by
          rw [hxdef]; congr 1
          have : (num : ℚ) = ((num / n : ℕ) : ℚ) * n := by
            have := hdm; rw [hr0, Nat.add_zero] at this
            exact_mod_cast this
          rw [this]; field_simp
        rw [hx']
        exact roundCore_isRNE f h.hp (num / n) hqpos _
      · have hst : (num % n != 0) = true := by simp [hr0]
        rw [hst]
        have hnumq : (num : ℚ) = ((num / n : ℕ) : ℚ) * n + ((num % n : ℕ) : ℚ) := by exact_mod_cast hdm
        have hr1 : (0 : ℚ) < ((num % n : ℕ) : ℚ) := by exact_mod_cast Nat.pos_of_ne_zero hr0
        have hr2 : ((num % n : ℕ) : ℚ) < n := by exact_mod_cast hrem
        apply roundCore_isRNE_sticky f h.hp (num / n) _ hlen x
        · rw [hxdef]; apply mul_lt_mul_of_pos_right _ hue
          rw [lt_div_iff₀ hnq, hnumq]; linarith
        · rw [hxdef]; apply mul_lt_mul_of_pos_right _ hue
          rw [div_lt_iff₀ hnq, hnumq]; nlinarith
    apply roundFin_finite_of_isRNE f h _ _ hq0 _ _ hxpos hrne
    rw [hquot] at hbd
    cases hst : (s != t)
    · simp only [hst, Bool.false_eq_true, if_false, one_mul] at hbd
      exact le_trans (le_abs_self _) hbd
    · simp only [hst, if_true] at hbd
      rw [show (-1 : ℚ) * x = -x by ring, rne_neg, abs_neg] at hbd
      exact le_trans (le_abs_self _) hbd

/-- a finite pattern's magnitude does not exceed Lmax -/
lemma decode_le_Lmax (f : Fmt) (h : WF f) (b : Nat) (s : Bool) (m : Nat) (e : Int) (hd : decode f b = .fin s m e) :
    (m : ℚ) * 2 ^ e ≤ Lmax f := by
  obtain ⟨b1, b2⟩ := decode_bounds f h b s m e hd
  have hx3 := expMax_ge3 f h
  have hemax : f.emaxUlp = (f.expMax : Int) - 2 + f.emin := by unfold Fmt.emaxUlp; omega
  have hele : e ≤ f.emaxUlp := by
    have hE : (fields f b).e < 2 ^ f.ew := by unfold fields; exact Nat.mod_lt _ (by positivity)
    have hxm : f.expMax + 1 = 2 ^ f.ew := by
      simp only [Fmt.expMax]; have : 0 < 2 ^ f.ew := by positivity
      omega
    unfold decode at hd
    simp only at hd
    split_ifs at hd with h1 h2 h3
    · cases hd; rw [hemax]; omega
    · cases hd; rw [hemax]; omega
  unfold Lmax
  have hm : (m : ℚ) ≤ 2 ^ f.p - 1 := by
    have : m + 1 ≤ 2 ^ f.p := b1
    have : ((m + 1 : ℕ) : ℚ) ≤ ((2 ^ f.p : ℕ) : ℚ) := by exact_mod_cast this
    push_cast at this; linarith
  have h2 : (2 : ℚ) ^ e ≤ 2 ^ f.emaxUlp := zpow_le_zpow_right₀ (by norm_num) hele
  have h0 : (0 : ℚ) ≤ m := by positivity
  have h3 : (0 : ℚ) ≤ 2 ^ f.p - 1 := le_trans h0 hm
  calc (m : ℚ) * 2 ^ e ≤ (2 ^ f.p - 1) * 2 ^ e := mul_le_mul_of_nonneg_right hm (by positivity)
    _ ≤ (2 ^ f.p - 1) * 2 ^ f.emaxUlp := mul_le_mul_of_nonneg_left h2 h3

/-- the square root of a positive finite pattern is finite (formats whose largest value is at least 4) -/
theorem sqrt_finite (f : Fmt) (h : WF f) (hL : 4 ≤ Lmax f) (a m : Nat) (e : Int)
    (ha : decode f a = .fin false m e) (hm : m ≠ 0) : isFiniteBits f (FP.sqrt f a) = true := by
  obtain ⟨hmp, hee⟩ := decode_bounds f h a false m e ha
  obtain ⟨r, E, M, hs, hrbig, hr1, hr2, hval, hE⟩ := sqrt_struct f a m e ha hm hmp
  have hvL := decode_le_Lmax f h a false m e ha
  rw [hs]
  have hrpos : 0 < r := lt_of_lt_of_le (by positivity) hrbig
  have h2E : (0 : ℚ) < 2 ^ E := by positivity
  set A : ℚ := (r : ℚ) * 2 ^ E with hA
  set B : ℚ := ((r : ℚ) + 1) * 2 ^ E with hB
  have hApos : 0 < A := by positivity
  have hpow : (2 : ℚ) ^ (2 * E) = (2 ^ E) ^ 2 := by rw [← zpow_natCast, ← zpow_mul]; congr 1; ring
  have hAv : A ^ 2 ≤ (m : ℚ) * 2 ^ e := by
    rw [← hval, hA, mul_pow, hpow]
    have : ((r * r : ℕ) : ℚ) ≤ (M : ℚ) := by exact_mod_cast hr1
    push_cast at this
    nlinarith [sq_nonneg ((2 : ℚ) ^ E)]
  -- B ≤ 2A ≤ Lmax
  have hB2A : B ≤ 2 * A := by
    rw [hA, hB]
    have : (1 : ℚ) ≤ r := by exact_mod_cast hrpos
    nlinarith
  have h2AL : 2 * A ≤ Lmax f := by
    by_contra hc
    push Not at hc
    have hLp := Lmax_pos f h
    have : Lmax f * Lmax f < (2 * A) * (2 * A) := mul_lt_mul'' hc hc hLp.le hLp.le
    nlinarith
  by_cases hst : r * r = M
  · have hsf : (r * r != M) = false := by simp [hst]
    rw [hsf]
    apply roundFin_finite_of_isRNE f h _ _ (by omega) E false hApos (roundCore_isRNE f h.hp r hrpos E)
    exact rne_le_Lmax f h (by linarith)
  · have hsf : (r * r != M) = true := by simp [hst]
    rw [hsf]
    have hlen : f.p + 2 ≤ bitLen r := by
      obtain ⟨_, hl2, _⟩ := bitLen_bounds hrpos
      by_contra hc
      push Not at hc
      have : 2 ^ bitLen r ≤ 2 ^ (f.p + 1) := Nat.pow_le_pow_right (by norm_num) (by omega)
      omega
    have hAB : A < B := by rw [hA, hB]; nlinarith
    have hx1 : A < (A + B) / 2 := by linarith
    have hx2 : (A + B) / 2 < B := by linarith
    apply roundFin_finite_of_isRNE f h _ _ (by omega) E true (lt_trans hApos hx1)
      (roundCore_isRNE_sticky f h.hp r E hlen _ hx1 hx2)
    exact rne_le_Lmax f h (by linarith)

end FAVerif.SoftRound
