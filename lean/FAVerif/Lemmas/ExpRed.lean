/-
Argument reduction of exponential type (`argument_reduction_exponent`):

  k = floor(RN(RN(x·V) + ½)),   r = RN(x − RN(k·H)),   c = −RN(k·L)        (V ≈ 1/ln 2, H + L ≈ ln 2)

over ℚ, generic in the precision, emin and the round-to-nearest.  Under explicit numeric side
conditions on the constants (discharged for the three formats by `norm_num` in Props/C17.lean):
the subtraction x − k·H is EXACT, |r| is bounded, and k·(H+L) + (r + c) differs from x only by the
rounding error of the single product k·L.
-/
import FAVerif.Lemmas.RelErr

namespace FAVerif.FPQ

variable {f : QFmt} {r : ℚ → ℚ} (hr : IsRN f r)
include hr

/-- absolute error of a round-to-nearest anywhere (gradual underflow included):
|RN(z) − z| ≤ 2^−p·|z| + 2^emin / 2 -/
theorem rn_abs_err (z : ℚ) : |r z - z| ≤ uro f * |z| + 2 ^ f.emin / 2 := by
  by_cases hz : 2 ^ (f.emin + f.p - 1) ≤ |z|
  · have := rn_rel_err hr (Or.inr hz)
    have : (0 : ℚ) ≤ 2 ^ f.emin / 2 := by positivity
    linarith
  · push Not at hz
    have hle : |z| ≤ 2 ^ f.p * 2 ^ f.emin := by
      have : (2 : ℚ) ^ (f.emin + f.p - 1) ≤ 2 ^ f.p * 2 ^ f.emin := by
        rw [← zpow_natCast, ← zpow_add₀ (by norm_num : (2 : ℚ) ≠ 0)]
        exact zpow_le_zpow_right₀ (by norm_num) (by omega)
      linarith
    have := rn_err_grid hr (le_refl f.emin) hle
    have h0 : 0 ≤ uro f * |z| := mul_nonneg uro_pos.le (abs_nonneg _)
    linarith

omit hr in
/-- a representable number of magnitude ≥ 2^j is a multiple of 2^(j − p + 1) -/
lemma mult_of_rep_ge' {x : ℚ} (hx : Rep f x) {j : ℤ} (hj : 2 ^ j ≤ |x|) : Mult (j - f.p + 1) x := by
  have : (2 : ℚ) ^ f.p * 2 ^ (j - f.p) ≤ |x| := by
    rw [← zpow_natCast, ← zpow_add₀ (by norm_num : (2 : ℚ) ≠ 0)]
    have : (f.p : ℤ) + (j - f.p) = j := by ring
    rw [this]; exact hj
  have := mult_succ_of_rep_ge hx this
  rwa [show j - (f.p : ℤ) + 1 = j - f.p + 1 by ring] at this

/-- **Exponential-type argument reduction.** -/
theorem exp_reduction (V H L : ℚ) (a : ℤ) (K : ℕ) (Xm ε η : ℚ) (x : ℚ)
    (hV : 0 < V) (hH : Mult a H) (ha : -(f.p : ℤ) - 1 ≤ a) (hemin : f.emin ≤ -(f.p : ℤ) - 1)
    (hshort : ∀ k : ℤ, |k| ≤ K → Rep f (k * H))
    (hx : Rep f x) (hXm : |x| ≤ Xm)
    (hε : uro f * (Xm * V) + 2 ^ f.emin / 2 + (uro f * (Xm * V + (uro f * (Xm * V) + 2 ^ f.emin / 2) + 1 / 2) + 2 ^ f.emin / 2) ≤ ε)
    (hη : |1 / V - H| ≤ η) (η' : ℚ) (hη' : |1 / V - (H + L)| ≤ η')
    (hK : Xm * V + ε + 1 / 2 < K + 1)
    (hnum1 : (1 / 2 + ε) / V + K * η ≤ 1 / 2) (hnum2 : 1 / 4 ≤ (1 / 2 - ε) / V) :
    let k : ℤ := ⌊r (r (x * V) + 1 / 2)⌋
    let rr := r (x - r (k * H))
    let c := -r (k * L)
    |k| ≤ K ∧ rr = x - k * H ∧ |rr| ≤ (1 / 2 + ε) / V + K * η ∧
    k * (H + L) + (rr + c) - x = k * L - r (k * L) ∧ |k * L - r (k * L)| ≤ uro f * |k * L| + 2 ^ f.emin / 2 ∧
    |x - k * (H + L)| ≤ (1 / 2 + ε) / V + K * η' ∧ (k = 0 → rr = x ∧ c = 0) := by
  intro k rr c
  set u := uro f with hu
  set η0 : ℚ := 2 ^ f.emin / 2 with hη0'
  have hu0 : 0 ≤ u := uro_pos.le
  have hη00 : 0 ≤ η0 := by positivity
  have hXm0 : 0 ≤ Xm := le_trans (abs_nonneg x) hXm
  -- the two rounding errors
  set t1 := r (x * V) with ht1
  set t2 := r (t1 + 1 / 2) with ht2
  have hxV : |x * V| ≤ Xm * V := by rw [abs_mul, abs_of_pos hV]; exact mul_le_mul_of_nonneg_right hXm hV.le
  have e1 : |t1 - x * V| ≤ u * (Xm * V) + η0 := by
    have := rn_abs_err hr (x * V)
    have h2 : u * |x * V| ≤ u * (Xm * V) := mul_le_mul_of_nonneg_left hxV hu0
    linarith
  have ht1abs : |t1| ≤ Xm * V + (u * (Xm * V) + η0) := by
    have := abs_sub_abs_le_abs_sub t1 (x * V)
    linarith
  have e2 : |t2 - (t1 + 1 / 2)| ≤ u * (Xm * V + (u * (Xm * V) + η0) + 1 / 2) + η0 := by
    have := rn_abs_err hr (t1 + 1 / 2)
    have h3 : |t1 + 1 / 2| ≤ |t1| + 1 / 2 := by
      have := abs_add_le t1 (1 / 2); rwa [abs_of_pos (by norm_num : (0 : ℚ) < 1 / 2)] at this
    have h4 : u * |t1 + 1 / 2| ≤ u * (Xm * V + (u * (Xm * V) + η0) + 1 / 2) :=
      mul_le_mul_of_nonneg_left (by linarith) hu0
    linarith
  -- t2 = xV + ½ + δ with |δ| ≤ ε
  have hδ : |t2 - (x * V + 1 / 2)| ≤ ε := by
    have : t2 - (x * V + 1 / 2) = (t2 - (t1 + 1 / 2)) + (t1 - x * V) := by ring
    rw [this]
    have := abs_add_le (t2 - (t1 + 1 / 2)) (t1 - x * V)
    linarith
  have hε0 : 0 ≤ ε := le_trans (abs_nonneg _) hδ
  -- floor
  have hk1 : (k : ℚ) ≤ t2 := Int.floor_le t2
  have hk2 : t2 < (k : ℚ) + 1 := Int.lt_floor_add_one t2
  have hδ' := abs_le.mp hδ
  have hd : |(k : ℚ) - x * V| ≤ 1 / 2 + ε := by
    rw [abs_le]; constructor <;> linarith [hδ'.1, hδ'.2]
  -- |k| ≤ K (integrality)
  have hkK1 : |(k : ℚ)| < K + 1 := by
    have h1 : |(k : ℚ)| ≤ |x * V| + |(k : ℚ) - x * V| := by
      have := abs_add_le (x * V) ((k : ℚ) - x * V); simpa using this
    linarith
  have hkKi : |k| ≤ (K : ℤ) := by
    have : ((|k| : ℤ) : ℚ) < (((K : ℤ) + 1 : ℤ) : ℚ) := by rw [Int.cast_abs]; push_cast; exact hkK1
    have : |k| < (K : ℤ) + 1 := by exact_mod_cast this
    omega
  have hkK : |(k : ℚ)| ≤ K := by
    have : ((|k| : ℤ) : ℚ) ≤ ((K : ℤ) : ℚ) := by exact_mod_cast hkKi
    rw [Int.cast_abs] at this; exact_mod_cast this
  have hη0 : 0 ≤ η := le_trans (abs_nonneg _) hη
  have hη0' : 0 ≤ η' := le_trans (abs_nonneg _) hη'
  -- bound of x − kH
  have hVne : V ≠ 0 := hV.ne'
  have hdecomp : x - k * H = -(((k : ℚ) - x * V) / V) + k * (1 / V - H) := by field_simp; ring
  have hbound : |x - k * H| ≤ (1 / 2 + ε) / V + K * η := by
    rw [hdecomp]
    have h1 : |-(((k : ℚ) - x * V) / V)| ≤ (1 / 2 + ε) / V := by
      rw [abs_neg, abs_div, abs_of_pos hV]; exact div_le_div_of_nonneg_right hd hV.le
    have h2 : |(k : ℚ) * (1 / V - H)| ≤ K * η := by
      rw [abs_mul]; exact mul_le_mul hkK hη (abs_nonneg _) (by positivity)
    have := abs_add_le (-(((k : ℚ) - x * V) / V)) ((k : ℚ) * (1 / V - H))
    linarith
  have hkH : r (k * H) = k * H := rn_id hr (hshort k hkKi)
  -- exactness of the subtraction
  have hA : Rep f (x - k * H) := by
    by_cases hk0 : k = 0
    · rw [hk0]; simpa using hx
    · have hk1' : (1 : ℚ) ≤ |(k : ℚ)| := by
        have : (1 : ℤ) ≤ |k| := Int.one_le_abs hk0
        rw [← Int.cast_abs]; exact_mod_cast this
      have hxlow : 1 / 4 ≤ |x| := by
        have h1 : |(k : ℚ)| ≤ |x * V| + |(k : ℚ) - x * V| := by
          have := abs_add_le (x * V) ((k : ℚ) - x * V); simpa using this
        have h2 : 1 / 2 - ε ≤ |x| * V := by rw [abs_mul, abs_of_pos hV] at h1; linarith
        have h3 : (1 / 2 - ε) / V ≤ |x| := by rw [div_le_iff₀ hV]; exact h2
        linarith
      have hxM : Mult (-(f.p : ℤ) - 1) x := by
        have h4 : (2 : ℚ) ^ (-2 : ℤ) ≤ |x| := by
          have : (2 : ℚ) ^ (-2 : ℤ) = 1 / 4 := by norm_num
          rw [this]; exact hxlow
        have := mult_of_rep_ge' hx h4
        exact Mult.mono (by omega) this
      have hkHM : Mult (-(f.p : ℤ) - 1) ((k : ℚ) * H) := by
        obtain ⟨h, rfl⟩ := hH
        exact Mult.mono ha ⟨k * h, by push_cast; ring⟩
      apply rep_of_mult_le hemin (hxM.sub hkHM)
      have : (2 : ℚ) ^ f.p * 2 ^ (-(f.p : ℤ) - 1) = 1 / 2 := by
        rw [← zpow_natCast, ← zpow_add₀ (by norm_num : (2 : ℚ) ≠ 0)]
        have : (f.p : ℤ) + (-(f.p : ℤ) - 1) = -1 := by ring
        rw [this]; norm_num
      rw [this]; linarith
  have hrr : rr = x - k * H := by
    show r (x - r (k * H)) = _
    rw [hkH]; exact rn_id hr hA
  have hdecomp' : x - k * (H + L) = -(((k : ℚ) - x * V) / V) + k * (1 / V - (H + L)) := by field_simp; ring
  have hbound' : |x - k * (H + L)| ≤ (1 / 2 + ε) / V + K * η' := by
    rw [hdecomp']
    have h1 : |-(((k : ℚ) - x * V) / V)| ≤ (1 / 2 + ε) / V := by
      rw [abs_neg, abs_div, abs_of_pos hV]; exact div_le_div_of_nonneg_right hd hV.le
    have h2 : |(k : ℚ) * (1 / V - (H + L))| ≤ K * η' := by
      rw [abs_mul]; exact mul_le_mul hkK hη' (abs_nonneg _) (by positivity)
    have := abs_add_le (-(((k : ℚ) - x * V) / V)) ((k : ℚ) * (1 / V - (H + L)))
    linarith
  refine ⟨hkKi, hrr, by rw [hrr]; exact hbound, ?_, ?_, hbound', ?_⟩
  · rw [hrr]; show (k : ℚ) * (H + L) + (x - k * H + -r (k * L)) - x = _; ring
  · have := rn_abs_err hr ((k : ℚ) * L)
    rw [abs_sub_comm] at this
    exact this
  · intro hk0
    have r0 : r 0 = 0 := rn_id hr ⟨0, f.emin, by simp, by positivity, le_refl _⟩
    refine ⟨by rw [hrr, hk0]; simp, ?_⟩
    show -r (k * L) = 0
    rw [hk0]; simp [r0]

end FAVerif.FPQ
