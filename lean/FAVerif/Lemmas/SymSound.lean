/-
Soundness of the symmetry analyser (Models/Sym.lean) with respect to the bit-exact evaluation.
-/
import FAVerif.Models.Sym
import FAVerif.Lemmas.SoftCongr

namespace FAVerif.Sym
open FAVerif.IR FAVerif.FP FAVerif.SoftRound

/-- meaning of a descriptor: value in the transformed run `v'` versus the original run `v` -/
def Rel (f : Fmt) : Desc → Nat → Nat → Prop
  | .same, v', v => eqvN f v' v
  | .neg, v', v => eqvN f v' (FP.neg f v)
  | .bnot, v', v => (v' != 0) = !(v != 0)
  | .unk, _, _ => True

structure InfoOK (f : Fmt) (env env' : Array Nat) (x : Info) (v' v : Nat) : Prop where
  rel : Rel f x.d v' v
  negOf : ∀ k, x.negOf = some k → ∃ u u', env[k]? = some u ∧ env'[k]? = some u' ∧ v = FP.neg f u ∧ v' = FP.neg f u'
  zero : x.zero = true → v' = v ∧ magBits f v = 0
  nzin : x.nzin = true → v' = FP.neg f v ∧ isNaNBits f v = false ∧ magBits f v ≠ 0
  cst : ∀ c, x.cst = some c → v = c ∧ v' = c
  kb : ∀ b, x.kb = some b → (v != 0) = b ∧ (v' != 0) = b
  eqc : ∀ a c, x.eqc = some (a, c) → isNaNBits f c = false ∧
    ∃ u u', env[a]? = some u ∧ env'[a]? = some u' ∧ v = b2n (FP.eq f u c) ∧ v' = b2n (FP.eq f u' c)
  addsub : ∀ t a b, x.addsub = some (t, a, b) → ∃ ua ua' ub ub', env[a]? = some ua ∧ env'[a]? = some ua' ∧
    env[b]? = some ub ∧ env'[b]? = some ub' ∧
    v = (if t then FP.add f ua ub else FP.sub f ua ub) ∧ v' = (if t then FP.add f ua' ub' else FP.sub f ua' ub')

def Inv (f : Fmt) (infos : List Info) (env env' : Array Nat) : Prop :=
  infos.length = env.size ∧ env.size = env'.size ∧
  ∀ (j : Nat) (x : Info), infos[j]? = some x → ∃ v v', env[j]? = some v ∧ env'[j]? = some v' ∧ InfoOK f env env' x v' v

/-- hypotheses on the two input vectors -/
def InsOK (f : Fmt) (cfg : Cfg) (ins ins' : List Nat) : Prop :=
  ∀ (i : Nat) (a a' : Nat), ins[i]? = some a → ins'[i]? = some a' →
    Rel f ((cfg.sigma[i]?).getD .unk) a' a ∧
    (cfg.nz.contains i = true → (cfg.sigma[i]?).getD .unk = .neg → a' = FP.neg f a ∧ isNaNBits f a = false ∧ magBits f a ≠ 0)

/-- what is assumed of the transcendental oracle: it does not look at NaN payloads/signs, atan2 is
odd in its first argument, cos is even, sin is odd, and sign(−a) = −sign(a) for a ≠ 0. -/
structure LibOK (f : Fmt) (lib : Libm) : Prop where
  congr : ∀ name args args' r r', List.Forall₂ (eqvN f) args' args → lib name args = some r → lib name args' = some r' → eqvN f r' r
  atan2_odd : ∀ a a' b b' r r', eqvN f a' (FP.neg f a) → eqvN f b' b →
    lib "atan2" [a, b] = some r → lib "atan2" [a', b'] = some r' → eqvN f r' (FP.neg f r)
  cos_even : ∀ a a' r r', eqvN f a' (FP.neg f a) → lib "cos" [a] = some r → lib "cos" [a'] = some r' → eqvN f r' r
  sin_odd : ∀ a a' r r', eqvN f a' (FP.neg f a) → lib "sin" [a] = some r → lib "sin" [a'] = some r' → eqvN f r' (FP.neg f r)
  sign_odd : ∀ a r r', isNaNBits f a = false → magBits f a ≠ 0 →
    lib "sign" [a] = some r → lib "sign" [FP.neg f a] = some r' → eqvN f r' (FP.neg f r)

theorem eqvN_truth {f : Fmt} (hf : WF f) {a' a : Nat} (h : eqvN f a' a) : (a' != 0) = (a != 0) := by
  rcases h with rfl | ⟨h1, h2⟩
  · rfl
  · have n0 : isNaNBits f 0 = false := by
      have := isNaN_zeroBits f hf false
      simpa [Fmt.zeroBits] using this
    have e1 : a' ≠ 0 := by intro e; rw [e, n0] at h1; exact absurd h1 (by decide)
    have e2 : a ≠ 0 := by intro e; rw [e, n0] at h2; exact absurd h2 (by decide)
    have t1 : (a' != 0) = true := by simpa [bne_iff_ne] using e1
    have t2 : (a != 0) = true := by simpa [bne_iff_ne] using e2
    rw [t1, t2]

theorem eqvN_b2n (f : Fmt) {b' b : Bool} (h : b' = b) : eqvN f (b2n b') (b2n b) := by rw [h]; exact eqvN_refl f _

end FAVerif.Sym

namespace FAVerif.Sym
open FAVerif.IR FAVerif.FP FAVerif.SoftRound

lemma bind1_some {o0 : Option Nat} {g : Nat → Nat} {v : Nat}
    (h : (do let a ← o0; some (g a)) = some v) : ∃ a, o0 = some a ∧ v = g a := by
  cases o0 with
  | none => simp at h
  | some a => exact ⟨a, rfl, by simpa using h.symm⟩

lemma bind2_some {o0 o1 : Option Nat} {g : Nat → Nat → Nat} {v : Nat}
    (h : (do let a ← o0; let b ← o1; some (g a b)) = some v) : ∃ a b, o0 = some a ∧ o1 = some b ∧ v = g a b := by
  cases o0 with
  | none => simp at h
  | some a =>
    cases o1 with
    | none => simp at h
    | some b => exact ⟨a, b, rfl, rfl, by simpa using h.symm⟩

lemma arg_some {env : Array Nat} {args : List Nat} {i a : Nat}
    (h : (args[i]? >>= fun k => env[k]?) = some a) : ∃ j, args[i]? = some j ∧ env[j]? = some a := by
  cases hj : args[i]? with
  | none => simp [hj] at h
  | some j => exact ⟨j, rfl, by simpa [hj] using h⟩

variable {f : Fmt}

lemma inv_lookup {infos : List Info} {env env' : Array Nat} (hinv : Inv f infos env env') {j a a' : Nat}
    (ha : env[j]? = some a) (ha' : env'[j]? = some a') :
    ∃ x, infos[j]? = some x ∧ InfoOK f env env' x a' a := by
  obtain ⟨h1, h2, h3⟩ := hinv
  have hj : j < env.size := by
    by_contra hc; push Not at hc
    rw [Array.getElem?_eq_none hc] at ha; cases ha
  have hjl : j < infos.length := by omega
  refine ⟨infos[j], List.getElem?_eq_getElem hjl, ?_⟩
  obtain ⟨v, v', e1, e2, hok⟩ := h3 j infos[j] (List.getElem?_eq_getElem hjl)
  rw [ha] at e1; rw [ha'] at e2
  cases e1; cases e2
  exact hok

/-- information about the i-th argument in both runs -/
lemma arg_pair {infos : List Info} {env env' : Array Nat} (hinv : Inv f infos env env') {args : List Nat} {i a a' : Nat}
    (h : (args[i]? >>= fun k => env[k]?) = some a) (h' : (args[i]? >>= fun k => env'[k]?) = some a') :
    ∃ j x, args[i]? = some j ∧ infos[j]? = some x ∧ InfoOK f env env' x a' a ∧ dOf infos args i = x.d ∧
      infoOf infos args i = some x ∧ env[j]? = some a ∧ env'[j]? = some a' := by
  obtain ⟨j, hj, ha⟩ := arg_some h
  obtain ⟨j', hj', ha'⟩ := arg_some h'
  rw [hj] at hj'; cases hj'
  obtain ⟨x, hx, hok⟩ := inv_lookup hinv ha ha'
  exact ⟨j, x, hj, hx, hok, by simp [dOf, hj, hx], by simp [infoOf, hj, hx], ha, ha'⟩

/-- an `InfoOK` with no structural facts -/
lemma infoOK_plain {env env' : Array Nat} {d : Desc} {v' v : Nat} (h : Rel f d v' v) :
    InfoOK f env env' { d := d } v' v :=
  { rel := h
    negOf := fun k hk => by simp at hk
    zero := fun hz => by simp at hz
    nzin := fun hz => by simp at hz
    cst := fun c hc => by simp at hc
    kb := fun b hb => by simp at hb
    eqc := fun a c hc => by simp at hc
    addsub := fun t a b hc => by simp at hc }

lemma dIdx_eq {infos : List Info} {j : Nat} {x : Info} (h : infos[j]? = some x) : dIdx infos j = x.d := by
  simp [dIdx, h]

lemma push_lookup {env : Array Nat} {k u : Nat} (h : env[k]? = some u) (w : Nat) : (env.push w)[k]? = some u := by
  have hk : k < env.size := by
    by_contra hc; push Not at hc
    rw [Array.getElem?_eq_none hc] at h; cases h
  rw [Array.getElem?_push_lt hk]; rw [Array.getElem?_eq_getElem hk] at h; exact h

end FAVerif.Sym

namespace FAVerif.Sym
open FAVerif.IR FAVerif.FP FAVerif.SoftRound

variable {f : Fmt}

lemma bind3_some {o0 o1 o2 : Option Nat} {g : Nat → Nat → Nat → Nat} {v : Nat}
    (h : (do let c ← o0; let a ← o1; let b ← o2; some (g c a b)) = some v) :
    ∃ c a b, o0 = some c ∧ o1 = some a ∧ o2 = some b ∧ v = g c a b := by
  cases o0 with
  | none => simp at h
  | some c =>
    cases o1 with
    | none => simp at h
    | some a =>
      cases o2 with
      | none => simp at h
      | some b => exact ⟨c, a, b, rfl, rfl, rfl, by simpa using h.symm⟩

/-- generic binary arithmetic case: both operands `same` -/
lemma bin_same (hf : WF f) {infos : List Info} {env env' : Array Nat} (hinv : Inv f infos env env') {args : List Nat}
    {g : Nat → Nat → Nat} (hg : ∀ a' a b' b, eqvN f a' a → eqvN f b' b → eqvN f (g a' b') (g a b)) {v v' : Nat}
    (h : (do let a ← (args[0]? >>= fun k => env[k]?); let b ← (args[1]? >>= fun k => env[k]?); some (g a b)) = some v)
    (h' : (do let a ← (args[0]? >>= fun k => env'[k]?); let b ← (args[1]? >>= fun k => env'[k]?); some (g a b)) = some v') :
    Rel f (if dOf infos args 0 = .same ∧ dOf infos args 1 = .same then .same else .unk) v' v := by
  obtain ⟨a, b, ha, hb, rfl⟩ := bind2_some h
  obtain ⟨a', b', ha', hb', rfl⟩ := bind2_some h'
  obtain ⟨_, xa, _, _, oka, da, _, _, _⟩ := arg_pair hinv ha ha'
  obtain ⟨_, xb, _, _, okb, db, _, _, _⟩ := arg_pair hinv hb hb'
  split
  · rename_i hd
    rw [da, db] at hd
    have ra := oka.rel; have rb := okb.rel
    rw [hd.1] at ra; rw [hd.2] at rb
    exact hg _ _ _ _ ra rb
  · trivial

lemma mulDesc_rel (hf : WF f) {g : Nat → Nat → Nat}
    (hss : ∀ a' a b' b, eqvN f a' a → eqvN f b' b → eqvN f (g a' b') (g a b))
    (hns : ∀ a' a b' b, eqvN f a' (FP.neg f a) → eqvN f b' b → eqvN f (g a' b') (FP.neg f (g a b)))
    (hsn : ∀ a' a b' b, eqvN f a' a → eqvN f b' (FP.neg f b) → eqvN f (g a' b') (FP.neg f (g a b)))
    (hnn : ∀ a' a b' b, eqvN f a' (FP.neg f a) → eqvN f b' (FP.neg f b) → eqvN f (g a' b') (g a b))
    {da db : Desc} {a' a b' b : Nat} (ra : Rel f da a' a) (rb : Rel f db b' b) :
    Rel f (mulDesc da db) (g a' b') (g a b) := by
  cases da <;> cases db <;> simp only [mulDesc, Rel] at * <;> first
    | trivial
    | exact hss _ _ _ _ ra rb
    | exact hns _ _ _ _ ra rb
    | exact hsn _ _ _ _ ra rb
    | exact hnn _ _ _ _ ra rb

theorem div_rel_neg_same (hf : WF f) {a' a b' b : Nat} (ha : eqvN f a' (FP.neg f a)) (hb : eqvN f b' b) :
    eqvN f (FP.div f a' b') (FP.neg f (FP.div f a b)) := by
  refine eqvN_trans (div_congr f hf ha hb) ?_
  rw [div_neg_left f hf a b]; exact eqvN_negN_neg f hf _

end FAVerif.Sym

namespace FAVerif.Sym
open FAVerif.IR FAVerif.FP FAVerif.SoftRound

variable {f : Fmt}

theorem div_rel_same_neg (hf : WF f) {a' a b' b : Nat} (ha : eqvN f a' a) (hb : eqvN f b' (FP.neg f b)) :
    eqvN f (FP.div f a' b') (FP.neg f (FP.div f a b)) := by
  refine eqvN_trans (div_congr f hf ha hb) ?_
  rw [div_neg_right f hf a b]; exact eqvN_negN_neg f hf _

theorem div_rel_neg_neg (hf : WF f) {a' a b' b : Nat} (ha : eqvN f a' (FP.neg f a)) (hb : eqvN f b' (FP.neg f b)) :
    eqvN f (FP.div f a' b') (FP.div f a b) := by
  refine eqvN_trans (div_congr f hf ha hb) ?_
  rw [div_neg_left f hf a (FP.neg f b), div_neg_right f hf a b, negN_negN f hf]
  exact eqvN_refl f _

/-- comparison of an exactly negated non-zero non-NaN value against ±0 flips every ordering test -/
lemma cmp_flip (hf : WF f) {a z : Nat} (hnan : isNaNBits f a = false) (hnz : magBits f a ≠ 0) (hz : magBits f z = 0) :
    FP.lt f (FP.neg f a) z = !FP.lt f a z ∧ FP.le f (FP.neg f a) z = !FP.le f a z ∧
    FP.lt f z (FP.neg f a) = !FP.lt f z a ∧ FP.le f z (FP.neg f a) = !FP.le f z a := by
  have hzn : isNaNBits f z = false := by
    -- magnitude 0 means ±0, not NaN
    have hS : 0 < f.signBit := by rw [signBit_eq f hf]; positivity
    have hzabs : FP.abs f z = 0 := by simpa [FP.abs, magBits] using hz
    have := isNaN_abs f hf z
    rw [hzabs] at this
    have n0 : isNaNBits f 0 = false := by
      have := isNaN_zeroBits f hf false
      simpa [Fmt.zeroBits] using this
    rw [n0] at this; exact this.symm
  have hoz : ord f z = 0 := by unfold ord; rw [hz]; split <;> simp
  have hoa : ord f a ≠ 0 := by
    unfold ord; split
    · intro h; apply hnz; omega
    · intro h; apply hnz; omega
  have hna : isNaNBits f (FP.neg f a) = false := by rw [isNaN_neg f hf]; exact hnan
  have hon := ord_neg f hf a
  unfold FP.lt FP.le
  simp only [hna, hnan, hzn, hon, hoz, Bool.not_false, Bool.true_and]
  refine ⟨?_, ?_, ?_, ?_⟩ <;> simp only [← decide_not, decide_eq_decide] <;> omega


lemma isFinite_of_nan (f : Fmt) {a : Nat} (h : isNaNBits f a = true) : isFiniteBits f a = false := by
  unfold isNaNBits decode at h
  unfold isFiniteBits
  by_cases he : (fields f a).e = f.expMax
  · simp [he]
  · simp only [he, if_false] at h
    split at h <;> simp [V.isNaN] at h

theorem isFinite_congr (f : Fmt) {a' a : Nat} (h : eqvN f a' a) : isFiniteBits f a' = isFiniteBits f a := by
  rcases h with rfl | ⟨h1, h2⟩
  · rfl
  · rw [isFinite_of_nan f h1, isFinite_of_nan f h2]

lemma b2n_truth (b : Bool) : (b2n b != 0) = b := by cases b <;> rfl

lemma rel_same_b2n {b' b : Bool} (h : b' = b) : Rel f .same (b2n b') (b2n b) := eqvN_b2n f h

lemma rel_bnot_b2n {b' b : Bool} (h : b' = !b) : Rel f .bnot (b2n b') (b2n b) := by
  simp only [Rel, b2n_truth]; exact h

/-- generic comparison case -/
lemma cmp_case (hf : WF f) {infos : List Info} {env env' : Array Nat} (hinv : Inv f infos env env') {args : List Nat}
    {g : Nat → Nat → Bool} (hg : ∀ a' a b' b, eqvN f a' a → eqvN f b' b → g a' b' = g a b)
    (hflip : ∀ a z, isNaNBits f a = false → magBits f a ≠ 0 → magBits f z = 0 → g (FP.neg f a) z = !g a z)
    (hflip2 : ∀ a z, isNaNBits f a = false → magBits f a ≠ 0 → magBits f z = 0 → g z (FP.neg f a) = !g z a) {v v' : Nat}
    (h : (do let a ← (args[0]? >>= fun k => env[k]?); let b ← (args[1]? >>= fun k => env[k]?); some (b2n (g a b))) = some v)
    (h' : (do let a ← (args[0]? >>= fun k => env'[k]?); let b ← (args[1]? >>= fun k => env'[k]?); some (b2n (g a b))) = some v') :
    Rel f (if dOf infos args 0 = .same ∧ dOf infos args 1 = .same then .same else if cmpFlip infos args then .bnot else .unk) v' v := by
  obtain ⟨a, b, ha, hb, rfl⟩ := bind2_some h
  obtain ⟨a', b', ha', hb', rfl⟩ := bind2_some h'
  obtain ⟨_, xa, _, _, oka, da, ia, _, _⟩ := arg_pair hinv ha ha'
  obtain ⟨_, xb, _, _, okb, db, ib, _, _⟩ := arg_pair hinv hb hb'
  split
  · rename_i hd
    rw [da, db] at hd
    have ra := oka.rel; have rb := okb.rel
    rw [hd.1] at ra; rw [hd.2] at rb
    exact rel_same_b2n (hg _ _ _ _ ra rb)
  · split
    · rename_i hc
      simp only [cmpFlip, ia, ib, Bool.or_eq_true, Bool.and_eq_true] at hc
      rcases hc with hc | hc
      · obtain ⟨e1, e2, e3⟩ := oka.nzin hc.1
        obtain ⟨e4, e5⟩ := okb.zero hc.2
        apply rel_bnot_b2n
        rw [e1, e4]
        exact hflip a b e2 e3 e5
      · obtain ⟨e1, e2, e3⟩ := okb.nzin hc.1
        obtain ⟨e4, e5⟩ := oka.zero hc.2
        apply rel_bnot_b2n
        rw [e1, e4]
        exact hflip2 b a e2 e3 e5
    · trivial

lemma mapM_forall₂ {infos : List Info} {env env' : Array Nat} (hinv : Inv f infos env env') :
    ∀ (args : List Nat) (vs vs' : List Nat),
    args.all (fun j => match infos[j]? with | some x => x.d == .same | none => false) = true →
    args.mapM (fun k => env[k]?) = some vs → args.mapM (fun k => env'[k]?) = some vs' →
    List.Forall₂ (eqvN f) vs' vs := by
  intro args
  induction args with
  | nil => intro vs vs' _ h h'; simp at h h'; subst h; subst h'; exact List.Forall₂.nil
  | cons j js ih =>
    intro vs vs' hall h h'
    simp only [List.mapM_cons, Option.bind_eq_bind] at h h'
    cases ha : env[j]? with
    | none => simp [ha] at h
    | some a =>
      cases ha' : env'[j]? with
      | none => simp [ha'] at h'
      | some a' =>
        cases hr : js.mapM (fun k => env[k]?) with
        | none => simp [ha, hr] at h
        | some r =>
          cases hr' : js.mapM (fun k => env'[k]?) with
          | none => simp [ha', hr'] at h'
          | some r' =>
            simp [ha, hr] at h; simp [ha', hr'] at h'
            subst h; subst h'
            simp only [List.all_cons, Bool.and_eq_true] at hall
            obtain ⟨x, hx, ok⟩ := inv_lookup hinv ha ha'
            have hd : x.d = .same := by
              have := hall.1; rw [hx] at this; simpa using this
            have rr := ok.rel; rw [hd] at rr
            exact List.Forall₂.cons rr (ih r r' hall.2 hr hr')

lemma select_rel (hf : WF f) {dc da db : Desc} {np : Bool} {c' c a' a b' b : Nat}
    (rc : Rel f dc c' c) (ra : Rel f da a' a) (rb : Rel f db b' b)
    (hnp : np = true → (a = FP.neg f b ∧ a' = FP.neg f b') ∨ (b = FP.neg f a ∧ b' = FP.neg f a')) :
    Rel f (selDesc dc da db np) (if c' != 0 then a' else b') (if c != 0 then a else b) := by
  cases dc with
  | unk => trivial
  | neg => trivial
  | same =>
    simp only [selDesc]
    by_cases hd : da = db ∧ (da = .same ∨ da = .neg)
    · rw [if_pos hd]
      simp only [Rel] at rc
      rw [eqvN_truth hf rc]
      rw [← hd.1] at rb
      by_cases hcz : (c != 0) = true
      · simp only [hcz, if_true]; exact ra
      · simp only [hcz]; exact rb
    · rw [if_neg hd]; trivial
  | bnot =>
    simp only [selDesc]
    by_cases hd : da = .same ∧ db = .same ∧ np = true
    · rw [if_pos hd]
      obtain ⟨h1, h2, h3⟩ := hd
      subst h1; subst h2
      simp only [Rel] at rc ra rb ⊢
      rw [rc]
      rcases hnp h3 with ⟨e3, e4⟩ | ⟨e3, e4⟩
      · by_cases hcz : (c != 0) = true
        · have h2 : ¬ ((!(c != 0)) = true) := by simp [hcz]
          rw [if_pos hcz, if_neg h2, e3, neg_neg' f hf]; exact rb
        · have h2 : (!(c != 0)) = true := by simpa using hcz
          rw [if_neg hcz, if_pos h2, e4]; exact neg_congr f hf rb
      · by_cases hcz : (c != 0) = true
        · have h2 : ¬ ((!(c != 0)) = true) := by simp [hcz]
          rw [if_pos hcz, if_neg h2, e4]; exact neg_congr f hf ra
        · have h2 : (!(c != 0)) = true := by simpa using hcz
          rw [if_neg hcz, if_pos h2, e3, neg_neg' f hf]; exact ra
    · rw [if_neg hd]; trivial


lemma one_arg {infos : List Info} {env env' : Array Nat} (hinv : Inv f infos env env') {args vs vs' : List Nat}
    (hlen : args.length = 1) (hvs : args.mapM (fun k => env[k]?) = some vs) (hvs' : args.mapM (fun k => env'[k]?) = some vs') :
    ∃ (a a' : Nat) (x : Info) (j : Nat), env[j]? = some a ∧ env'[j]? = some a' ∧ InfoOK f env env' x a' a ∧ dOf infos args 0 = x.d ∧
      nzinOf infos args 0 = x.nzin ∧ vs = [a] ∧ vs' = [a'] := by
  match hargs : args, hlen with
  | [j0], _ =>
    simp only [List.mapM_cons, List.mapM_nil, Option.bind_eq_bind] at hvs hvs'
    cases e0 : env[j0]? with
    | none => simp [e0] at hvs
    | some a =>
      cases e0' : env'[j0]? with
      | none => simp [e0'] at hvs'
      | some a' =>
        simp [e0] at hvs; simp [e0'] at hvs'
        subst hvs; subst hvs'
        obtain ⟨x0, hx0, ok0⟩ := inv_lookup hinv e0 e0'
        exact ⟨a, a', x0, j0, e0, e0', ok0, by simp [dOf, hx0], by simp [nzinOf, infoOf, hx0], rfl, rfl⟩

lemma eq_nz_zero (hf : WF f) {a z : Nat} (hnz : magBits f a ≠ 0) (hz : magBits f z = 0) : FP.eq f a z = false := by
  have hoz := ord_of_mag0 f hz
  have hoa : ord f a ≠ 0 := by
    unfold ord; split
    · intro h; apply hnz; omega
    · intro h; apply hnz; omega
  unfold FP.eq
  rw [hoz]
  simp [hoa]

/-- an exactly negated non-zero operand against ±0: equality is false in both runs -/
lemma eq_false_of_flip (hf : WF f) {infos : List Info} {env env' : Array Nat} {args : List Nat} {xa xb : Info} {a a' b b' : Nat}
    (ia : infoOf infos args 0 = some xa) (ib : infoOf infos args 1 = some xb)
    (oka : InfoOK f env env' xa a' a) (okb : InfoOK f env env' xb b' b) (hc : cmpFlip infos args = true) :
    FP.eq f a b = false ∧ FP.eq f a' b' = false := by
  simp only [cmpFlip, ia, ib, Bool.or_eq_true, Bool.and_eq_true] at hc
  rcases hc with hc | hc
  · obtain ⟨e1, e2, e3⟩ := oka.nzin hc.1
    obtain ⟨e4, e5⟩ := okb.zero hc.2
    refine ⟨eq_nz_zero hf e3 e5, ?_⟩
    rw [e1, e4]
    exact eq_nz_zero hf (by rw [magBits_neg f hf]; exact e3) e5
  · obtain ⟨e1, e2, e3⟩ := okb.nzin hc.1
    obtain ⟨e4, e5⟩ := oka.zero hc.2
    rw [eq_comm' f a b, eq_comm' f a' b']
    refine ⟨eq_nz_zero hf e3 e5, ?_⟩
    rw [e1, e4]
    exact eq_nz_zero hf (by rw [magBits_neg f hf]; exact e3) e5

lemma eq_neg_zero_rel (hf : WF f) {infos : List Info} {env env' : Array Nat} {args : List Nat} {xa xb : Info} {a a' b b' : Nat}
    (ia : infoOf infos args 0 = some xa) (ib : infoOf infos args 1 = some xb)
    (oka : InfoOK f env env' xa a' a) (okb : InfoOK f env env' xb b' b) (hz : eqNegZero infos args = true) :
    FP.eq f a' b' = FP.eq f a b := by
  simp only [eqNegZero, ia, ib, Bool.or_eq_true, Bool.and_eq_true, beq_iff_eq] at hz
  rcases hz with hz | hz
  · have ra := oka.rel; rw [hz.1] at ra
    obtain ⟨e4, e5⟩ := okb.zero hz.2
    rw [e4, eq_congr f ra (eqvN_refl f b), eq_neg_zero f hf a b e5]
  · have rb := okb.rel; rw [hz.1] at rb
    obtain ⟨e4, e5⟩ := oka.zero hz.2
    rw [e4, eq_comm' f a b', eq_comm' f a b, eq_congr f rb (eqvN_refl f a), eq_neg_zero f hf b a e5]

lemma or_swap_rel (hf : WF f) {infos : List Info} {env env' : Array Nat} (hinv : Inv f infos env env') {args : List Nat}
    {xa xb : Info} {a a' b b' : Nat}
    (ia : infoOf infos args 0 = some xa) (ib : infoOf infos args 1 = some xb)
    (oka : InfoOK f env env' xa a' a) (okb : InfoOK f env env' xb b' b) (hs : orSwap f infos args = true) :
    Rel f .same (b2n (a' != 0 || b' != 0)) (b2n (a != 0 || b != 0)) := by
  simp only [orSwap, ia, ib] at hs
  cases hea : xa.eqc with
  | none => simp [hea] at hs
  | some p1 =>
    cases heb : xb.eqc with
    | none => simp [hea, heb] at hs
    | some p2 =>
      obtain ⟨a1, c1⟩ := p1
      obtain ⟨a2, c2⟩ := p2
      simp only [hea, heb, Bool.and_eq_true, beq_iff_eq] at hs
      obtain ⟨⟨h1, h2⟩, h3⟩ := hs
      subst h1
      obtain ⟨n1, u, u', q1, q2, q3, q4⟩ := oka.eqc a1 c1 hea
      obtain ⟨n2, w, w', r1, r2, r3, r4⟩ := okb.eqc a1 c2 heb
      rw [q1] at r1; rw [q2] at r2; cases r1; cases r2
      obtain ⟨x, hx, ok⟩ := inv_lookup hinv q1 q2
      have ru := ok.rel
      rw [← dIdx_eq hx, h3] at ru
      simp only [Rel] at ru
      apply rel_same_b2n
      rw [q3, q4, r3, r4]
      simp only [b2n_truth]
      have k1 : FP.eq f u' c1 = FP.eq f u c2 := by
        rw [eq_congr f ru (eqvN_refl f c1), h2]
        conv_lhs => rw [← neg_neg' f hf c1]
        rw [eq_neg_neg f hf]
      have k2 : FP.eq f u' c2 = FP.eq f u c1 := by
        rw [eq_congr f ru (eqvN_refl f c2), h2, eq_neg_neg f hf]
      rw [k1, k2, Bool.or_comm]

lemma swap_core (hf : WF f) {c c' x x' : Nat} (hc : eqvN f c' c) (hx : eqvN f x' (FP.neg f x)) :
    eqvN f (FP.add f c' x') (FP.sub f c x) ∧ eqvN f (FP.sub f c' x') (FP.add f c x) := by
  constructor
  · exact eqvN_trans (add_congr f hf hc hx) (add_neg_eqv_sub f hf c x)
  · refine eqvN_trans (sub_congr f hf hc hx) ?_
    rw [sub_neg_eq_add f hf]; exact eqvN_refl f _

lemma swap_pair_rel (hf : WF f) {infos : List Info} {env env' : Array Nat} (hinv : Inv f infos env env') {args : List Nat}
    {xa xb : Info} {a a' b b' : Nat}
    (ia : infoOf infos args 0 = some xa) (ib : infoOf infos args 1 = some xb)
    (oka : InfoOK f env env' xa a' a) (okb : InfoOK f env env' xb b' b) (hs : swapPair infos args = true) :
    Rel f .same (FP.mul f a' b') (FP.mul f a b) := by
  simp only [swapPair, ia, ib] at hs
  cases hea : xa.addsub with
  | none => simp [hea] at hs
  | some p1 =>
    cases heb : xb.addsub with
    | none => simp [hea, heb] at hs
    | some p2 =>
      obtain ⟨t1, a1, b1⟩ := p1
      obtain ⟨t2, a2, b2⟩ := p2
      simp only [hea, heb, Bool.and_eq_true, beq_iff_eq, Bool.or_eq_true, bne_iff_ne, ne_eq] at hs
      obtain ⟨⟨⟨ht, hab⟩, hsa⟩, hsb⟩ := hs
      obtain ⟨ua, ua', ub, ub', q1, q2, q3, q4, q5, q6⟩ := oka.addsub t1 a1 b1 hea
      obtain ⟨wa, wa', wb, wb', r1, r2, r3, r4, r5, r6⟩ := okb.addsub t2 a2 b2 heb
      simp only [Rel]
      cases t1 with
      | true =>
        -- first factor is the sum, second the difference (a2 ⊖ b2)
        have ht2 : t2 = false := by cases t2 <;> simp_all
        subst ht2
        simp only [if_true] at hab hsa hsb q5 q6
        simp only [Bool.false_eq_true, if_false] at r5 r6
        obtain ⟨xc, hxc, okc⟩ := inv_lookup hinv r1 r2
        obtain ⟨xx, hxx, okx⟩ := inv_lookup hinv r3 r4
        have rc := okc.rel; rw [← dIdx_eq hxc, hsa] at rc
        have rx := okx.rel; rw [← dIdx_eq hxx, hsb] at rx
        simp only [Rel] at rc rx
        obtain ⟨s1, s2⟩ := swap_core hf rc rx
        rcases hab with ⟨e1, e2⟩ | ⟨e1, e2⟩
        · subst e1; subst e2
          rw [q1] at r1; rw [q2] at r2; rw [q3] at r3; rw [q4] at r4
          cases r1; cases r2; cases r3; cases r4
          rw [q5, q6, r5, r6, mul_comm' f (FP.add f ua ub) (FP.sub f ua ub)]
          exact mul_congr f hf s1 s2
        · subst e1; subst e2
          rw [q1] at r3; rw [q2] at r4; rw [q3] at r1; rw [q4] at r2
          cases r1; cases r2; cases r3; cases r4
          rw [q5, q6, r5, r6, add_comm' f ua ub, add_comm' f ua' ub', mul_comm' f (FP.add f ub ua) (FP.sub f ub ua)]
          exact mul_congr f hf s1 s2
      | false =>
        have ht2 : t2 = true := by cases t2 <;> simp_all
        subst ht2
        simp only [Bool.false_eq_true, if_false] at hab hsa hsb q5 q6
        simp only [if_true] at r5 r6
        obtain ⟨xc, hxc, okc⟩ := inv_lookup hinv q1 q2
        obtain ⟨xx, hxx, okx⟩ := inv_lookup hinv q3 q4
        have rc := okc.rel; rw [← dIdx_eq hxc, hsa] at rc
        have rx := okx.rel; rw [← dIdx_eq hxx, hsb] at rx
        simp only [Rel] at rc rx
        obtain ⟨s1, s2⟩ := swap_core hf rc rx
        rcases hab with ⟨e1, e2⟩ | ⟨e1, e2⟩
        · subst e1; subst e2
          rw [q1] at r1; rw [q2] at r2; rw [q3] at r3; rw [q4] at r4
          cases r1; cases r2; cases r3; cases r4
          rw [q5, q6, r5, r6, mul_comm' f (FP.sub f ua ub) (FP.add f ua ub)]
          exact mul_congr f hf s2 s1
        · subst e1; subst e2
          rw [q1] at r3; rw [q2] at r4; rw [q3] at r1; rw [q4] at r2
          cases r1; cases r2; cases r3; cases r4
          rw [q5, q6, r5, r6, add_comm' f ub ua, add_comm' f ub' ua', mul_comm' f (FP.sub f ua ub) (FP.add f ua ub)]
          exact mul_congr f hf s2 s1

theorem step_ok (hf : WF f) (cfg : Cfg) (lib : Libm) (hlib : LibOK f lib) (ins ins' : List Nat) (hins : InsOK f cfg ins ins')
    (infos : List Info) (env env' : Array Nat) (hinv : Inv f infos env env') (n : Node) (v v' : Nat)
    (h : evalNode f lib ins env n = some v) (h' : evalNode f lib ins' env' n = some v') :
    InfoOK f env env' (stepInfo f cfg infos n) v' v := by
  unfold evalNode at h h'
  cases hop : n.op with
  | input =>
    simp only [hop] at h h'
    simp only [stepInfo, hop]
    obtain ⟨r1, r2⟩ := hins n.imm v v' h h'
    exact {
      rel := r1
      negOf := fun k hk => by simp at hk
      zero := fun hz => by simp at hz
      nzin := by
        intro hz
        simp only [Bool.and_eq_true, beq_iff_eq] at hz
        exact r2 hz.1 hz.2
      cst := fun c hc => by simp at hc
      kb := fun b hb => by simp at hb
      eqc := fun a c hc => by simp at hc
      addsub := fun t a b hc => by simp at hc }
  | const =>
    simp only [hop] at h h'
    simp only [stepInfo, hop]
    cases h; cases h'
    exact {
      rel := eqvN_refl f _
      negOf := fun k hk => by simp at hk
      zero := by
        intro hz
        refine ⟨rfl, ?_⟩
        simp only [Bool.or_eq_true, beq_iff_eq] at hz
        have hS : 0 < f.signBit := by rw [signBit_eq f hf]; positivity
        rcases hz with hz | hz <;> simp [magBits, hz, Nat.zero_mod]
      nzin := fun hz => by simp at hz
      cst := by
        intro c hc
        simp only [Option.some.injEq] at hc
        exact ⟨hc, hc⟩
      kb := fun b hb => by simp at hb
      eqc := fun a c hc => by simp at hc
      addsub := fun t a b hc => by simp at hc }
  | bconst =>
    simp only [hop] at h h'
    simp only [stepInfo, hop]
    cases h; cases h'
    exact infoOK_plain (eqvN_refl f _)
  | neg =>
    simp only [hop] at h h'
    simp only [stepInfo, hop]
    obtain ⟨a, ha, rfl⟩ := bind1_some h
    obtain ⟨a', ha', rfl⟩ := bind1_some h'
    obtain ⟨j, x, hj, hx, ok, dd, io, ea, ea'⟩ := arg_pair hinv ha ha'
    exact {
      rel := by
        rw [dd]
        have r := ok.rel
        cases hd : x.d <;> rw [hd] at r <;> simp only [Rel] at r ⊢
        · exact neg_congr f hf r
        · exact neg_congr f hf r
      negOf := by
        intro k hk
        simp only at hk
        rw [hj] at hk; cases hk
        exact ⟨a, a', ea, ea', rfl, rfl⟩
      zero := fun hz => by simp at hz
      nzin := by
        intro hz
        simp only [nzinOf, io] at hz
        obtain ⟨e1, e2, e3⟩ := ok.nzin hz
        refine ⟨by rw [e1], ?_, ?_⟩
        · rw [isNaN_neg f hf]; exact e2
        · rw [magBits_neg f hf]; exact e3
      cst := fun c hc => by simp at hc
      kb := fun b hb => by simp at hb
      eqc := fun a c hc => by simp at hc
      addsub := fun t a b hc => by simp at hc }
  | abs =>
    simp only [hop] at h h'
    simp only [stepInfo, hop]
    obtain ⟨a, ha, rfl⟩ := bind1_some h
    obtain ⟨a', ha', rfl⟩ := bind1_some h'
    obtain ⟨j, x, hj, hx, ok, dd, _, ea, ea'⟩ := arg_pair hinv ha ha'
    apply infoOK_plain
    rw [dd]
    have r := ok.rel
    cases hd : x.d <;> rw [hd] at r <;> simp only [Rel] at r ⊢
    · exact abs_congr f hf r
    · exact abs_of_neg_congr f hf r
  | sqrt =>
    simp only [hop] at h h'
    simp only [stepInfo, hop]
    obtain ⟨a, ha, rfl⟩ := bind1_some h
    obtain ⟨a', ha', rfl⟩ := bind1_some h'
    obtain ⟨j, x, hj, hx, ok, dd, _, ea, ea'⟩ := arg_pair hinv ha ha'
    apply infoOK_plain
    rw [dd]
    split
    · rename_i hd; have r := ok.rel; rw [hd] at r; exact sqrt_congr f r
    · trivial
  | add =>
    simp only [hop] at h h'
    simp only [stepInfo, hop]
    obtain ⟨a, b, ha, hb, rfl⟩ := bind2_some h
    obtain ⟨a', b', ha', hb', rfl⟩ := bind2_some h'
    obtain ⟨ja, xa, hja, _, oka, da, _, eja, eja'⟩ := arg_pair hinv ha ha'
    obtain ⟨jb, xb, hjb, _, okb, db, _, ejb, ejb'⟩ := arg_pair hinv hb hb'
    exact {
      rel := by
        rw [da, db]
        have ra := oka.rel; have rb := okb.rel
        by_cases hd : xa.d = .same ∧ xb.d = .same
        · rw [if_pos hd]
          rw [hd.1] at ra; rw [hd.2] at rb
          exact add_congr f hf ra rb
        · rw [if_neg hd]
          by_cases h2 : n.args[0]? = n.args[1]? ∧ xa.d = .neg
          · rw [if_pos h2]
            have hjj : ja = jb := by
              have := h2.1; rw [hja, hjb] at this; simpa using this
            subst hjj
            rw [eja] at ejb; rw [eja'] at ejb'; cases ejb; cases ejb'
            rw [h2.2] at ra
            simp only [Rel] at ra ⊢
            refine eqvN_trans (add_congr f hf ra ra) ?_
            rw [add_neg_neg_self f hf a]; exact eqvN_negN_neg f hf _
          · rw [if_neg h2]; trivial
      negOf := fun k hk => by simp at hk
      zero := fun hz => by simp at hz
      nzin := fun hz => by simp at hz
      cst := fun c hc => by simp at hc
      kb := fun b hb => by simp at hb
      eqc := fun a c hc => by simp at hc
      addsub := by
        intro t a0 b0 hc
        simp only [argPair, hja, hjb, Option.map_some, Option.some.injEq, Prod.mk.injEq] at hc
        obtain ⟨rfl, rfl, rfl⟩ := hc
        exact ⟨a, a', b, b', eja, eja', ejb, ejb', by simp, by simp⟩ }
  | sub =>
    simp only [hop] at h h'
    simp only [stepInfo, hop]
    obtain ⟨a, b, ha, hb, rfl⟩ := bind2_some h
    obtain ⟨a', b', ha', hb', rfl⟩ := bind2_some h'
    obtain ⟨ja, xa, hja, _, oka, da, _, eja, eja'⟩ := arg_pair hinv ha ha'
    obtain ⟨jb, xb, hjb, _, okb, db, _, ejb, ejb'⟩ := arg_pair hinv hb hb'
    exact {
      rel := by
        rw [da, db]
        have ra := oka.rel; have rb := okb.rel
        by_cases hd : xa.d = .same ∧ xb.d = .same
        · rw [if_pos hd]
          rw [hd.1] at ra; rw [hd.2] at rb
          exact sub_congr f hf ra rb
        · rw [if_neg hd]; trivial
      negOf := fun k hk => by simp at hk
      zero := fun hz => by simp at hz
      nzin := fun hz => by simp at hz
      cst := fun c hc => by simp at hc
      kb := fun b hb => by simp at hb
      eqc := fun a c hc => by simp at hc
      addsub := by
        intro t a0 b0 hc
        simp only [argPair, hja, hjb, Option.map_some, Option.some.injEq, Prod.mk.injEq] at hc
        obtain ⟨rfl, rfl, rfl⟩ := hc
        exact ⟨a, a', b, b', eja, eja', ejb, ejb', by simp, by simp⟩ }
  | mul =>
    simp only [hop] at h h'
    simp only [stepInfo, hop]
    obtain ⟨a, b, ha, hb, rfl⟩ := bind2_some h
    obtain ⟨a', b', ha', hb', rfl⟩ := bind2_some h'
    obtain ⟨_, xa, _, _, oka, da, ia, _, _⟩ := arg_pair hinv ha ha'
    obtain ⟨_, xb, _, _, okb, db, ib, _, _⟩ := arg_pair hinv hb hb'
    apply infoOK_plain
    by_cases hs : swapPair infos n.args = true
    · rw [if_pos hs]
      exact swap_pair_rel hf hinv ia ib oka okb hs
    · rw [if_neg hs, da, db]
      exact mulDesc_rel hf (fun _ _ _ _ => mul_congr f hf) (fun _ _ _ _ => mul_rel_neg_same f hf)
        (fun _ _ _ _ => mul_rel_same_neg f hf) (fun _ _ _ _ => mul_rel_neg_neg f hf) oka.rel okb.rel
  | div =>
    simp only [hop] at h h'
    simp only [stepInfo, hop]
    obtain ⟨a, b, ha, hb, rfl⟩ := bind2_some h
    obtain ⟨a', b', ha', hb', rfl⟩ := bind2_some h'
    obtain ⟨_, xa, _, _, oka, da, _, _, _⟩ := arg_pair hinv ha ha'
    obtain ⟨_, xb, _, _, okb, db, _, _, _⟩ := arg_pair hinv hb hb'
    apply infoOK_plain
    rw [da, db]
    exact mulDesc_rel hf (fun _ _ _ _ => div_congr f hf) (fun _ _ _ _ => div_rel_neg_same hf)
      (fun _ _ _ _ => div_rel_same_neg hf) (fun _ _ _ _ => div_rel_neg_neg hf) oka.rel okb.rel
  | pymax =>
    simp only [hop] at h h'
    simp only [stepInfo, hop]
    refine infoOK_plain (bin_same hf hinv (g := fun a b => if FP.lt f a b then b else a) ?_ h h')
    intro a' a b' b ra rb
    simp only [lt_congr f ra rb]
    split <;> assumption
  | pymin =>
    simp only [hop] at h h'
    simp only [stepInfo, hop]
    refine infoOK_plain (bin_same hf hinv (g := fun a b => if FP.lt f b a then b else a) ?_ h h')
    intro a' a b' b ra rb
    simp only [lt_congr f rb ra]
    split <;> assumption
  | and =>
    simp only [hop] at h h'
    simp only [stepInfo, hop]
    refine infoOK_plain (bin_same hf hinv (g := fun a b => b2n (a != 0 && b != 0)) ?_ h h')
    intro a' a b' b ra rb
    rw [eqvN_truth hf ra, eqvN_truth hf rb]; exact eqvN_refl f _
  | or =>
    simp only [hop] at h h'
    simp only [stepInfo, hop]
    obtain ⟨a, b, ha, hb, rfl⟩ := bind2_some h
    obtain ⟨a', b', ha', hb', rfl⟩ := bind2_some h'
    obtain ⟨ja, xa, hja, _, oka, da, ia, eja, eja'⟩ := arg_pair hinv ha ha'
    obtain ⟨jb, xb, hjb, _, okb, db, ib, ejb, ejb'⟩ := arg_pair hinv hb hb'
    apply infoOK_plain
    rw [da, db]
    have ra := oka.rel; have rb := okb.rel
    by_cases hd : xa.d = .same ∧ xb.d = .same
    · rw [if_pos hd]
      rw [hd.1] at ra; rw [hd.2] at rb
      simp only [Rel] at ra rb ⊢
      rw [eqvN_truth hf ra, eqvN_truth hf rb]; exact eqvN_refl f _
    · rw [if_neg hd]
      by_cases hs : orSwap f infos n.args = true
      · rw [if_pos hs]
        exact or_swap_rel hf hinv ia ib oka okb hs
      · rw [if_neg hs]; trivial
  | lt =>
    simp only [hop] at h h'
    simp only [stepInfo, hop]
    exact infoOK_plain (cmp_case hf hinv (g := FP.lt f) (fun _ _ _ _ => lt_congr f)
      (fun a z h1 h2 h3 => (cmp_flip hf h1 h2 h3).1) (fun a z h1 h2 h3 => (cmp_flip hf h1 h2 h3).2.2.1) h h')
  | le =>
    simp only [hop] at h h'
    simp only [stepInfo, hop]
    exact infoOK_plain (cmp_case hf hinv (g := FP.le f) (fun _ _ _ _ => le_congr f)
      (fun a z h1 h2 h3 => (cmp_flip hf h1 h2 h3).2.1) (fun a z h1 h2 h3 => (cmp_flip hf h1 h2 h3).2.2.2) h h')
  | gt =>
    simp only [hop] at h h'
    simp only [stepInfo, hop]
    exact infoOK_plain (cmp_case hf hinv (g := FP.gt f) (fun _ _ _ _ ra rb => lt_congr f rb ra)
      (fun a z h1 h2 h3 => (cmp_flip hf h1 h2 h3).2.2.1) (fun a z h1 h2 h3 => (cmp_flip hf h1 h2 h3).1) h h')
  | ge =>
    simp only [hop] at h h'
    simp only [stepInfo, hop]
    exact infoOK_plain (cmp_case hf hinv (g := FP.ge f) (fun _ _ _ _ ra rb => le_congr f rb ra)
      (fun a z h1 h2 h3 => (cmp_flip hf h1 h2 h3).2.2.2) (fun a z h1 h2 h3 => (cmp_flip hf h1 h2 h3).2.1) h h')
  | eq =>
    simp only [hop] at h h'
    simp only [stepInfo, hop]
    obtain ⟨a, b, ha, hb, rfl⟩ := bind2_some h
    obtain ⟨a', b', ha', hb', rfl⟩ := bind2_some h'
    obtain ⟨ja, xa, hja, _, oka, da, ia, eja, eja'⟩ := arg_pair hinv ha ha'
    obtain ⟨jb, xb, hjb, _, okb, db, ib, ejb, ejb'⟩ := arg_pair hinv hb hb'
    exact {
      rel := by
        rw [da, db]
        have ra := oka.rel; have rb := okb.rel
        by_cases hd : (xa.d = .same ∧ xb.d = .same) ∨ (xa.d = .neg ∧ xb.d = .neg)
        · rw [if_pos hd]
          apply rel_same_b2n
          rcases hd with hd | hd
          · rw [hd.1] at ra; rw [hd.2] at rb
            rw [eq_congr f ra rb]
          · rw [hd.1] at ra; rw [hd.2] at rb
            rw [eq_congr f ra rb, eq_neg_neg f hf]
        · rw [if_neg hd]
          by_cases hz : eqNegZero infos n.args = true
          · rw [if_pos hz]
            apply rel_same_b2n
            exact eq_neg_zero_rel hf ia ib oka okb hz
          · rw [if_neg hz]; trivial
      negOf := fun k hk => by simp at hk
      zero := fun hz => by simp at hz
      nzin := fun hz => by simp at hz
      cst := fun c hc => by simp at hc
      kb := by
        intro b0 hb0
        by_cases hc : cmpFlip infos n.args = true
        · simp only [hc, if_true, Option.some.injEq] at hb0
          subst hb0
          obtain ⟨e1, e2⟩ := eq_false_of_flip hf ia ib oka okb hc
          rw [b2n_truth, b2n_truth]; exact ⟨e1, e2⟩
        · simp [hc] at hb0
      eqc := by
        intro a0 c0 hc
        simp only [cstOf, ia, ib, hja, hjb] at hc
        cases hcb : xb.cst with
        | some c1 =>
          simp only [hcb] at hc
          by_cases hn : isNaNBits f c1 = true
          · simp [hn] at hc
          · simp only [hn, Bool.false_eq_true, if_false, Option.some.injEq, Prod.mk.injEq] at hc
            obtain ⟨rfl, rfl⟩ := hc
            obtain ⟨e1, e2⟩ := okb.cst c1 hcb
            refine ⟨by simpa using hn, a, a', eja, eja', ?_, ?_⟩
            · rw [e1]
            · rw [e2]
        | none =>
          simp only [hcb] at hc
          cases hca : xa.cst with
          | none => simp [hca] at hc
          | some c1 =>
            simp only [hca] at hc
            by_cases hn : isNaNBits f c1 = true
            · simp [hn] at hc
            · simp only [hn, Bool.false_eq_true, if_false, Option.some.injEq, Prod.mk.injEq] at hc
              obtain ⟨rfl, rfl⟩ := hc
              obtain ⟨e1, e2⟩ := oka.cst c1 hca
              refine ⟨by simpa using hn, b, b', ejb, ejb', ?_, ?_⟩
              · rw [e1, eq_comm']
              · rw [e2, eq_comm']
      addsub := fun t a b hc => by simp at hc }
  | ne =>
    simp only [hop] at h h'
    simp only [stepInfo, hop]
    obtain ⟨a, b, ha, hb, rfl⟩ := bind2_some h
    obtain ⟨a', b', ha', hb', rfl⟩ := bind2_some h'
    obtain ⟨ja, xa, hja, _, oka, da, ia, eja, eja'⟩ := arg_pair hinv ha ha'
    obtain ⟨jb, xb, hjb, _, okb, db, ib, ejb, ejb'⟩ := arg_pair hinv hb hb'
    exact {
      rel := by
        rw [da, db]
        have ra := oka.rel; have rb := okb.rel
        by_cases hd : (xa.d = .same ∧ xb.d = .same) ∨ (xa.d = .neg ∧ xb.d = .neg)
        · rw [if_pos hd]
          apply rel_same_b2n
          unfold FP.ne; congr 1
          rcases hd with hd | hd
          · rw [hd.1] at ra; rw [hd.2] at rb
            rw [eq_congr f ra rb]
          · rw [hd.1] at ra; rw [hd.2] at rb
            rw [eq_congr f ra rb, eq_neg_neg f hf]
        · rw [if_neg hd]
          by_cases hz : eqNegZero infos n.args = true
          · rw [if_pos hz]
            apply rel_same_b2n
            unfold FP.ne; congr 1
            exact eq_neg_zero_rel hf ia ib oka okb hz
          · rw [if_neg hz]; trivial
      negOf := fun k hk => by simp at hk
      zero := fun hz => by simp at hz
      nzin := fun hz => by simp at hz
      cst := fun c hc => by simp at hc
      kb := by
        intro b0 hb0
        by_cases hc : cmpFlip infos n.args = true
        · simp only [hc, if_true, Option.some.injEq] at hb0
          subst hb0
          obtain ⟨e1, e2⟩ := eq_false_of_flip hf ia ib oka okb hc
          rw [b2n_truth, b2n_truth]; unfold FP.ne; rw [e1, e2]; exact ⟨rfl, rfl⟩
        · simp [hc] at hb0
      eqc := fun a c hc => by simp at hc
      addsub := fun t a b hc => by simp at hc }
  | not =>
    simp only [hop] at h h'
    simp only [stepInfo, hop]
    obtain ⟨a, ha, rfl⟩ := bind1_some h
    obtain ⟨a', ha', rfl⟩ := bind1_some h'
    obtain ⟨j, x, hj, hx, ok, dd, _, ea, ea'⟩ := arg_pair hinv ha ha'
    apply infoOK_plain
    rw [dd]
    have r := ok.rel
    cases hd : x.d <;> rw [hd] at r <;> simp only [Rel] at r ⊢
    · have := eqvN_truth hf r
      apply eqvN_b2n
      simp only [bne, Bool.not_eq_eq_eq_not, Bool.not_not] at this
      cases h1 : (a' == 0) <;> cases h2 : (a == 0) <;> simp_all
    · rw [b2n_truth, b2n_truth]
      simp only [bne] at r
      cases h1 : (a' == 0) <;> cases h2 : (a == 0) <;> simp_all
  | isfinite =>
    simp only [hop] at h h'
    simp only [stepInfo, hop]
    obtain ⟨a, ha, rfl⟩ := bind1_some h
    obtain ⟨a', ha', rfl⟩ := bind1_some h'
    obtain ⟨j, x, hj, hx, ok, dd, _, ea, ea'⟩ := arg_pair hinv ha ha'
    apply infoOK_plain
    rw [dd]
    have r := ok.rel
    cases hd : x.d <;> rw [hd] at r <;> simp only [Rel] at r ⊢
    · exact eqvN_b2n f (isFinite_congr f r)
    · apply eqvN_b2n
      rw [isFinite_congr f r, isFinite_neg f hf]
  | select =>
    simp only [hop] at h h'
    simp only [stepInfo, hop]
    obtain ⟨c, a, b, hc, ha, hb, rfl⟩ := bind3_some h
    obtain ⟨c', a', b', hc', ha', hb', rfl⟩ := bind3_some h'
    obtain ⟨_, xc, _, _, okc, dc, ic, _, _⟩ := arg_pair hinv hc hc'
    obtain ⟨ja, xa, hja, hxa, oka, da, _, eja, eja'⟩ := arg_pair hinv ha ha'
    obtain ⟨jb, xb, hjb, hxb, okb, db, _, ejb, ejb'⟩ := arg_pair hinv hb hb'
    apply infoOK_plain
    simp only [kbOf, ic]
    rw [dc, da, db]
    cases hk : xc.kb with
    | some bb =>
      obtain ⟨k1, k2⟩ := okc.kb bb hk
      cases bb with
      | true =>
        simp only [k1, k2, if_true]
        have ra := oka.rel
        cases hd : xa.d <;> rw [hd] at ra <;> first | trivial | exact ra
      | false =>
        simp only [k1, k2, Bool.false_eq_true, if_false]
        have rb := okb.rel
        cases hd : xb.d <;> rw [hd] at rb <;> first | trivial | exact rb
    | none =>
      simp only
      refine select_rel hf okc.rel oka.rel okb.rel ?_
      intro h3
      simp only [isNegPair, hja, hjb, hxa, hxb, Bool.or_eq_true, beq_iff_eq] at h3
      rcases h3 with (h3 | h3) | h3
      · obtain ⟨u, u', e1, e2, e3, e4⟩ := oka.negOf jb h3
        rw [ejb] at e1; rw [ejb'] at e2; cases e1; cases e2
        exact Or.inl ⟨e3, e4⟩
      · obtain ⟨u, u', e1, e2, e3, e4⟩ := okb.negOf ja h3
        rw [eja] at e1; rw [eja'] at e2; cases e1; cases e2
        exact Or.inr ⟨e3, e4⟩
      · cases hca : xa.cst with
        | none => simp [hca] at h3
        | some c1 =>
          cases hcb : xb.cst with
          | none => simp [hca, hcb] at h3
          | some c2 =>
            simp only [hca, hcb, beq_iff_eq] at h3
            obtain ⟨e1, e2⟩ := oka.cst c1 hca
            obtain ⟨e3, e4⟩ := okb.cst c2 hcb
            exact Or.inr ⟨by rw [e3, e1, h3], by rw [e4, e2, h3]⟩
  | libm name =>
    simp only [hop] at h h'
    simp only [stepInfo, hop]
    apply infoOK_plain
    cases hvs : n.args.mapM (fun k => env[k]?) with
    | none => simp [hvs] at h
    | some vs =>
      cases hvs' : n.args.mapM (fun k => env'[k]?) with
      | none => simp [hvs'] at h'
      | some vs' =>
        simp only [hvs, hvs', Option.bind_eq_bind, Option.bind_some] at h h'
        split
        · rename_i hall
          exact hlib.congr name vs vs' v v' (mapM_forall₂ hinv n.args vs vs' hall hvs hvs') h h'
        · split
          · rename_i hd
            obtain ⟨hname, hlen, d0, d1⟩ := hd
            subst hname
            match hargs : n.args, hlen with
            | [j0, j1], _ =>
              rw [hargs] at hvs hvs'
              simp only [List.mapM_cons, List.mapM_nil, Option.bind_eq_bind] at hvs hvs'
              cases e0 : env[j0]? with
              | none => simp [e0] at hvs
              | some a =>
                cases e1 : env[j1]? with
                | none => simp [e0, e1] at hvs
                | some b =>
                  cases e0' : env'[j0]? with
                  | none => simp [e0'] at hvs'
                  | some a' =>
                    cases e1' : env'[j1]? with
                    | none => simp [e0', e1'] at hvs'
                    | some b' =>
                      simp [e0, e1] at hvs; simp [e0', e1'] at hvs'
                      subst hvs; subst hvs'
                      obtain ⟨x0, hx0, ok0⟩ := inv_lookup hinv e0 e0'
                      obtain ⟨x1, hx1, ok1⟩ := inv_lookup hinv e1 e1'
                      have r0 := ok0.rel; have r1 := ok1.rel
                      simp only [dOf, hargs, List.getElem?_cons_zero, List.getElem?_cons_succ, hx0, hx1] at d0 d1
                      rw [d0] at r0; rw [d1] at r1
                      exact hlib.atan2_odd a a' b b' v v' r0 r1 h h'
          · split
            · rename_i hd
              obtain ⟨hname, hlen, d0⟩ := hd
              subst hname
              obtain ⟨a, a', x0, _, e0, e0', ok0, dd0, _, rfl, rfl⟩ := one_arg hinv hlen hvs hvs'
              have r0 := ok0.rel
              rw [dd0] at d0; rw [d0] at r0
              exact hlib.cos_even a a' v v' r0 h h'
            · split
              · rename_i hd
                obtain ⟨hname, hlen, d0⟩ := hd
                subst hname
                obtain ⟨a, a', x0, _, e0, e0', ok0, dd0, _, rfl, rfl⟩ := one_arg hinv hlen hvs hvs'
                have r0 := ok0.rel
                rw [dd0] at d0; rw [d0] at r0
                exact hlib.sin_odd a a' v v' r0 h h'
              · split
                · rename_i hd
                  obtain ⟨hname, hlen, hz⟩ := hd
                  subst hname
                  obtain ⟨a, a', x0, _, e0, e0', ok0, _, nz0, rfl, rfl⟩ := one_arg hinv hlen hvs hvs'
                  rw [nz0] at hz
                  obtain ⟨q1, q2, q3⟩ := ok0.nzin hz
                  rw [q1] at h'
                  exact hlib.sign_odd a v v' q2 q3 h h'
                · trivial
  | fma => simp only [stepInfo, hop]; exact infoOK_plain trivial
  | npmax => simp only [stepInfo, hop]; exact infoOK_plain trivial
  | npmin => simp only [stepInfo, hop]; exact infoOK_plain trivial
  | xor => simp only [stepInfo, hop]; exact infoOK_plain trivial

end FAVerif.Sym

namespace FAVerif.Sym
open FAVerif.IR FAVerif.FP FAVerif.SoftRound

variable {f : Fmt}

lemma infoOK_mono {env env' : Array Nat} {x : Info} {v' v : Nat} (h : InfoOK f env env' x v' v) (w w' : Nat) :
    InfoOK f (env.push w) (env'.push w') x v' v :=
  { rel := h.rel
    zero := h.zero
    nzin := h.nzin
    cst := h.cst
    kb := h.kb
    eqc := by
      intro a c hc
      obtain ⟨hn, u, u', e1, e2, e3, e4⟩ := h.eqc a c hc
      exact ⟨hn, u, u', push_lookup e1 w, push_lookup e2 w', e3, e4⟩
    addsub := by
      intro t a b hc
      obtain ⟨ua, ua', ub, ub', e1, e2, e3, e4, e5, e6⟩ := h.addsub t a b hc
      exact ⟨ua, ua', ub, ub', push_lookup e1 w, push_lookup e2 w', push_lookup e3 w, push_lookup e4 w', e5, e6⟩
    negOf := by
      intro k hk
      obtain ⟨u, u', e1, e2, e3, e4⟩ := h.negOf k hk
      refine ⟨u, u', ?_, ?_, e3, e4⟩
      · have hk : k < env.size := by
          by_contra hc; push Not at hc
          rw [Array.getElem?_eq_none hc] at e1; cases e1
        rw [Array.getElem?_push_lt hk]; rw [Array.getElem?_eq_getElem hk] at e1; exact e1
      · have hk : k < env'.size := by
          by_contra hc; push Not at hc
          rw [Array.getElem?_eq_none hc] at e2; cases e2
        rw [Array.getElem?_push_lt hk]; rw [Array.getElem?_eq_getElem hk] at e2; exact e2 }

lemma inv_push {infos : List Info} {env env' : Array Nat} (hinv : Inv f infos env env') {x : Info} {v v' : Nat}
    (hx : InfoOK f env env' x v' v) : Inv f (infos ++ [x]) (env.push v) (env'.push v') := by
  obtain ⟨h1, h2, h3⟩ := hinv
  refine ⟨by simp [h1], by simp [h2], ?_⟩
  intro j y hy
  by_cases hj : j < infos.length
  · rw [List.getElem?_append_left hj] at hy
    obtain ⟨u, u', e1, e2, ok⟩ := h3 j y hy
    have hj1 : j < env.size := by omega
    have hj2 : j < env'.size := by omega
    refine ⟨u, u', ?_, ?_, infoOK_mono ok v v'⟩
    · rw [Array.getElem?_push_lt hj1]; rw [Array.getElem?_eq_getElem hj1] at e1; exact e1
    · rw [Array.getElem?_push_lt hj2]; rw [Array.getElem?_eq_getElem hj2] at e2; exact e2
  · have hjl : infos.length ≤ j := by omega
    rw [List.getElem?_append_right hjl] at hy
    have hj0 : j - infos.length = 0 := by
      by_contra hne
      have : 1 ≤ j - infos.length := by omega
      rw [List.getElem?_eq_none (by simpa using this)] at hy; cases hy
    rw [hj0] at hy
    simp only [List.getElem?_cons_zero, Option.some.injEq] at hy
    subst hy
    have hje : j = env.size := by omega
    have hje' : j = env'.size := by omega
    refine ⟨v, v', ?_, ?_, infoOK_mono hx v v'⟩
    · rw [hje]; simp
    · rw [hje']; simp

theorem analyse_ok (hf : WF f) (cfg : Cfg) (lib : Libm) (hlib : LibOK f lib) (ins ins' : List Nat)
    (hins : InsOK f cfg ins ins') :
    ∀ (nodes : List Node) (infos : List Info) (env env' envF envF' : Array Nat), Inv f infos env env' →
      evalNodes f lib ins nodes env = some envF → evalNodes f lib ins' nodes env' = some envF' →
      Inv f (analyse f cfg nodes infos) envF envF' := by
  intro nodes
  induction nodes with
  | nil =>
    intro infos env env' envF envF' hinv h h'
    simp only [evalNodes, Option.some.injEq] at h h'
    subst h; subst h'
    exact hinv
  | cons n ns ih =>
    intro infos env env' envF envF' hinv h h'
    simp only [evalNodes, Option.bind_eq_bind] at h h'
    cases hv : evalNode f lib ins env n with
    | none => simp [hv] at h
    | some v =>
      cases hv' : evalNode f lib ins' env' n with
      | none => simp [hv'] at h'
      | some v' =>
        simp only [hv, hv', Option.bind_some] at h h'
        have hx := step_ok hf cfg lib hlib ins ins' hins infos env env' hinv n v v' hv hv'
        exact ih _ _ _ _ _ (inv_push hinv hx) h h'

lemma mapM_get {g : Nat → Option Nat} : ∀ (l : List Nat) (r : List Nat), l.mapM g = some r →
    ∀ (i o : Nat), r[i]? = some o → ∃ k, l[i]? = some k ∧ g k = some o := by
  intro l
  induction l with
  | nil => intro r h i o ho; simp at h; subst h; simp at ho
  | cons k ks ih =>
    intro r h i o ho
    simp only [List.mapM_cons, Option.bind_eq_bind] at h
    cases hk : g k with
    | none => simp [hk] at h
    | some w =>
      cases hr : ks.mapM g with
      | none => simp [hk, hr] at h
      | some r0 =>
        simp [hk, hr] at h
        subst h
        cases i with
        | zero => simp at ho; subst ho; exact ⟨k, by simp, hk⟩
        | succ i =>
          simp only [List.getElem?_cons_succ] at ho ⊢
          exact ih r0 hr i o ho

/-- **Soundness of the symmetry analyser.**  If both runs of the program are defined, every output
of the transformed run is related to the output of the original run as the analyser says. -/
theorem outDescs_sound (p : Prog) (hf : WF p.fmt) (cfg : Cfg) (lib : Libm) (hlib : LibOK p.fmt lib) (ins ins' : List Nat)
    (hins : InsOK p.fmt cfg ins ins') (outs outs' : List Nat)
    (h : p.eval lib ins = some outs) (h' : p.eval lib ins' = some outs') :
    ∀ (i : Nat) (d : Desc) (o o' : Nat), (outDescs p cfg)[i]? = some d → outs[i]? = some o → outs'[i]? = some o' →
      Rel p.fmt d o' o := by
  intro i d o o' hd ho ho'
  unfold Prog.eval at h h'
  simp only [Option.bind_eq_bind] at h h'
  cases he : evalNodes p.fmt lib ins p.nodes #[] with
  | none => simp [he] at h
  | some envF =>
    cases he' : evalNodes p.fmt lib ins' p.nodes #[] with
    | none => simp [he'] at h'
    | some envF' =>
      simp only [he, he', Option.bind_some] at h h'
      have hinv0 : Inv p.fmt [] #[] #[] := ⟨rfl, rfl, fun j x hx => by simp at hx⟩
      have hinv := analyse_ok hf cfg lib hlib ins ins' hins p.nodes [] #[] #[] envF envF' hinv0 he he'
      obtain ⟨k, hk, ek⟩ := mapM_get p.outs outs h i o ho
      obtain ⟨k', hk', ek'⟩ := mapM_get p.outs outs' h' i o' ho'
      rw [hk] at hk'; cases hk'
      obtain ⟨x, hx, ok⟩ := inv_lookup hinv ek ek'
      simp only [outDescs, List.getElem?_map, hk, Option.map_some, hx, Option.some.injEq] at hd
      subst hd
      exact ok.rel

end FAVerif.Sym

namespace FAVerif.Sym
open FAVerif.IR FAVerif.FP FAVerif.SoftRound

/-- conjugation: the imaginary input is negated; it is assumed non-NaN and non-zero -/
def conjCfg : Cfg := { sigma := [.same, .neg], nz := [1] }
/-- z ↦ −z on a complex input: both parts negated, both assumed non-NaN and non-zero -/
def oddCfg : Cfg := { sigma := [.neg, .neg], nz := [0, 1] }
/-- x ↦ −x on a real input, assumed non-NaN and non-zero -/
def oddRealCfg : Cfg := { sigma := [.neg], nz := [0] }

variable {f : Fmt}

lemma insOK_conj (x y : Nat) (hy : isNaNBits f y = false) (hy0 : magBits f y ≠ 0) :
    InsOK f conjCfg [x, y] [x, FP.neg f y] := by
  intro i a a' h h'
  match i with
  | 0 => simp at h h'; subst h; subst h'; exact ⟨eqvN_refl f _, by simp [conjCfg]⟩
  | 1 => simp at h h'; subst h; subst h'; exact ⟨eqvN_refl f _, fun _ _ => ⟨rfl, hy, hy0⟩⟩
  | (k + 2) => simp at h

lemma insOK_odd (x y : Nat) (hx : isNaNBits f x = false) (hx0 : magBits f x ≠ 0) (hy : isNaNBits f y = false) (hy0 : magBits f y ≠ 0) :
    InsOK f oddCfg [x, y] [FP.neg f x, FP.neg f y] := by
  intro i a a' h h'
  match i with
  | 0 => simp at h h'; subst h; subst h'; exact ⟨eqvN_refl f _, fun _ _ => ⟨rfl, hx, hx0⟩⟩
  | 1 => simp at h h'; subst h; subst h'; exact ⟨eqvN_refl f _, fun _ _ => ⟨rfl, hy, hy0⟩⟩
  | (k + 2) => simp at h

lemma insOK_oddReal (x : Nat) (hx : isNaNBits f x = false) (hx0 : magBits f x ≠ 0) :
    InsOK f oddRealCfg [x] [FP.neg f x] := by
  intro i a a' h h'
  match i with
  | 0 => simp at h h'; subst h; subst h'; exact ⟨eqvN_refl f _, fun _ _ => ⟨rfl, hx, hx0⟩⟩
  | (k + 1) => simp at h

/-- two-output form of `outDescs_sound` -/
theorem sound2 (p : Prog) (hf : 2 ≤ p.fmt.p ∧ 2 ≤ p.fmt.ew) (cfg : Cfg) (d0 d1 : Desc) (hd : outDescs p cfg = [d0, d1])
    (lib : Libm) (hlib : LibOK p.fmt lib) (ins ins' : List Nat) (hins : InsOK p.fmt cfg ins ins') (o0 o1 o0' o1' : Nat)
    (h : p.eval lib ins = some [o0, o1]) (h' : p.eval lib ins' = some [o0', o1']) :
    Rel p.fmt d0 o0' o0 ∧ Rel p.fmt d1 o1' o1 := by
  have s := outDescs_sound p ⟨hf.1, hf.2⟩ cfg lib hlib ins ins' hins _ _ h h'
  exact ⟨s 0 d0 o0 o0' (by rw [hd]; rfl) rfl rfl, s 1 d1 o1 o1' (by rw [hd]; rfl) rfl rfl⟩

theorem sound1 (p : Prog) (hf : 2 ≤ p.fmt.p ∧ 2 ≤ p.fmt.ew) (cfg : Cfg) (d0 : Desc) (hd : outDescs p cfg = [d0])
    (lib : Libm) (hlib : LibOK p.fmt lib) (ins ins' : List Nat) (hins : InsOK p.fmt cfg ins ins') (o0 o0' : Nat)
    (h : p.eval lib ins = some [o0]) (h' : p.eval lib ins' = some [o0']) :
    Rel p.fmt d0 o0' o0 := by
  have s := outDescs_sound p ⟨hf.1, hf.2⟩ cfg lib hlib ins ins' hins _ _ h h'
  exact s 0 d0 o0 o0' (by rw [hd]; rfl) rfl rfl

end FAVerif.Sym
