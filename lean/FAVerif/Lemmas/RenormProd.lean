/-
Products of expansions: `apmath.multiply` / `apmath.square` before the final renormalisation are EXACT — the sum of the
accumulated list is the product of the sums — for every length, every precision and any round-to-nearest, given an
error-free `two_prod` (Dekker's product, proved exact in C10 on its domain) and absent overflow.  With the value
preservation of the renormalisation this gives: product / square of expansions equal the exact result whenever no size
limit truncates them.
-/
import FAVerif.Lemmas.Renorm
import Mathlib.Algebra.BigOperators.Intervals
import Mathlib.Tactic

namespace FAVerif.Renorm
open FAVerif.FPQ Finset

variable {q : QFmt} {r : ℚ → ℚ} {D : ℚ → ℚ → Prop}

/-- the error-free product on its domain `D` (for Dekker's product: the error term is representable, no overflow): exact,
with representable parts -/
structure TwoProdOK (q : QFmt) (D : ℚ → ℚ → Prop) (tp : ℚ → ℚ → ℚ × ℚ) : Prop where
  exact : ∀ a b, Rep q a → Rep q b → D a b → (tp a b).1 + (tp a b).2 = a * b
  rep1 : ∀ a b, Rep q a → Rep q b → D a b → Rep q (tp a b).1
  rep2 : ∀ a b, Rep q a → Rep q b → D a b → Rep q (tp a b).2

/-- doubling is exact (no overflow in the ℚ-model) -/
lemma rep_double {x : ℚ} (h : Rep q x) : Rep q (x + x) := by
  obtain ⟨m, e, h1, h2, h3⟩ := h
  exact ⟨m, e + 1, by rw [h1, zpow_add₀ (by norm_num : (2 : ℚ) ≠ 0)]; ring, h2, by omega⟩

lemma add_self_exact (hr : IsRN q r) {x : ℚ} (h : Rep q x) : (arithQ r).add x x = x + x := by
  show r (x + x) = x + x
  exact rn_id hr (rep_double h)

/-- the state invariant of `accumulate`: representable items -/
def AllRep (q : QFmt) (l : List ℚ) : Prop := ∀ a ∈ l, Rep q a

lemma allRep_append {l1 l2 : List ℚ} (h1 : AllRep q l1) (h2 : AllRep q l2) : AllRep q (l1 ++ l2) := by
  intro a ha; rcases List.mem_append.1 ha with h | h
  · exact h1 a h
  · exact h2 a h

/-- **the accumulation loop preserves the total**: the sum of `r_lst ++ e_lst` grows by the sums of the diagonals -/
theorem accumulate_sum (hr : IsRN q r) (diag : Nat → List ℚ × List ℚ) (hd : ∀ n, AllRep q (diag n).1 ∧ AllRep q (diag n).2)
    (hnil : ∀ n, (diag n).1 = [] → (diag n).2 = []) :
    ∀ (ns : List Nat) (R E : List ℚ), AllRep q R → AllRep q E →
      ((accumulate (arithQ r) false diag ns (R, E)).1.sum + (accumulate (arithQ r) false diag ns (R, E)).2.sum =
        R.sum + E.sum + (ns.map fun n => (diag n).1.sum + (diag n).2.sum).sum) ∧
      AllRep q (accumulate (arithQ r) false diag ns (R, E)).1 ∧ AllRep q (accumulate (arithQ r) false diag ns (R, E)).2 := by
  intro ns
  induction ns with
  | nil => intro R E hR hE; simp [accumulate, hR, hE]
  | cons n ns ih =>
    intro R E hR hE
    obtain ⟨hd1, hd2⟩ := hd n
    have hcat : AllRep q ((diag n).1 ++ E) := allRep_append hd1 hE
    obtain ⟨vs, vr, vl⟩ := vecsum_spec hr ((diag n).1 ++ E) hcat
    cases hv : vecsum (arithQ r) false ((diag n).1 ++ E) with
    | nil =>
      -- only possible when both lists are empty
      rw [hv] at vl
      have hlen : ((diag n).1 ++ E).length = 0 := by simpa using vl.symm
      have h1 : (diag n).1 = [] := by
        have := List.length_eq_zero_iff.mp hlen; exact (List.append_eq_nil_iff.mp this).1
      have h2 : E = [] := by
        have := List.length_eq_zero_iff.mp hlen; exact (List.append_eq_nil_iff.mp this).2
      -- the model skips the diagonal (the real code would raise; an empty diagonal has no error terms either: `hnil`)
      have hacc : accumulate (arithQ r) false diag (n :: ns) (R, E) = accumulate (arithQ r) false diag ns (R, E) := by
        simp [accumulate, hv]
      rw [hacc]
      obtain ⟨i1, i2, i3⟩ := ih R E hR hE
      refine ⟨?_, i2, i3⟩
      rw [i1]
      simp only [List.map_cons, List.sum_cons, h1, hnil n h1, List.sum_nil, zero_add]
    | cons s es =>
      rw [hv] at vs vr
      have hacc : accumulate (arithQ r) false diag (n :: ns) (R, E) = accumulate (arithQ r) false diag ns (R ++ [s], es ++ (diag n).2) := by
        simp [accumulate, hv]
      rw [hacc]
      have hs : Rep q s := vr s (List.mem_cons_self ..)
      have hes : AllRep q es := fun a ha => vr a (List.mem_cons_of_mem _ ha)
      obtain ⟨i1, i2, i3⟩ := ih (R ++ [s]) (es ++ (diag n).2) (allRep_append hR (by intro a ha; simp at ha; subst ha; exact hs))
        (allRep_append hes hd2)
      refine ⟨?_, i2, i3⟩
      rw [i1]
      simp only [List.sum_append, List.sum_cons, List.sum_nil, List.map_cons, add_zero] at vs ⊢
      linarith


/-! ### list sums as finite sums -/

lemma list_range_map_sum (f : ℕ → ℚ) (n : ℕ) : ((List.range n).map f).sum = ∑ i ∈ range n, f i := by
  induction n with
  | zero => simp
  | succ n ih => rw [List.range_succ, List.map_append, List.sum_append, ih, Finset.sum_range_succ]; simp

lemma list_sum_getD : ∀ (l : List ℚ), l.sum = ∑ i ∈ range l.length, l.getD i 0
  | [] => by simp
  | a :: l => by
    rw [List.sum_cons, List.length_cons, Finset.sum_range_succ', list_sum_getD l]
    simp [add_comm]

lemma list_range_drop_one_map_sum (f : ℕ → ℚ) (n : ℕ) (hn : 1 ≤ n) :
    (((List.range n).drop 1).map f).sum = (∑ i ∈ range n, f i) - f 0 := by
  obtain ⟨k, rfl⟩ : ∃ k, n = k + 1 := ⟨n - 1, by omega⟩
  rw [List.range_succ_eq_map, List.drop_one, List.tail_cons, List.map_map, Finset.sum_range_succ']
  have : ((List.range k).map (f ∘ Nat.succ)).sum = ∑ i ∈ range k, f (i + 1) := list_range_map_sum _ k
  rw [this]; ring

/-! ### the diagonals -/

/-- generic fold that appends one (p, e) pair per accepted index -/
lemma foldl_pairs (step : List ℚ × List ℚ → ℕ → List ℚ × List ℚ) (g : ℕ → ℚ)
    (hstep : ∀ acc i, AllRep q acc.1 → AllRep q acc.2 → acc.1.length = acc.2.length →
      (step acc i).1.sum + (step acc i).2.sum = acc.1.sum + acc.2.sum + g i ∧ AllRep q (step acc i).1 ∧ AllRep q (step acc i).2 ∧
      (step acc i).1.length = (step acc i).2.length) :
    ∀ (l : List ℕ) (acc : List ℚ × List ℚ), AllRep q acc.1 → AllRep q acc.2 → acc.1.length = acc.2.length →
      (l.foldl step acc).1.sum + (l.foldl step acc).2.sum = acc.1.sum + acc.2.sum + (l.map g).sum ∧
      AllRep q (l.foldl step acc).1 ∧ AllRep q (l.foldl step acc).2 ∧ (l.foldl step acc).1.length = (l.foldl step acc).2.length := by
  intro l
  induction l with
  | nil => intro acc h1 h2 h3; simp [h1, h2, h3]
  | cons i l ih =>
    intro acc h1 h2 h3
    obtain ⟨s1, s2, s3, s4⟩ := hstep acc i h1 h2 h3
    obtain ⟨t1, t2, t3, t4⟩ := ih (step acc i) s2 s3 s4
    refine ⟨?_, t2, t3, t4⟩
    rw [List.foldl_cons, t1, s1, List.map_cons, List.sum_cons]; ring

/-- contribution of index i1 to diagonal n of `multiply` -/
def mulTerm (seq1 seq2 : List ℚ) (n i1 : ℕ) : ℚ :=
  if i1 ≤ n ∧ n - i1 < seq2.length then seq1.getD i1 0 * seq2.getD (n - i1) 0 else 0

theorem mulDiag_spec (tp : ℚ → ℚ → ℚ × ℚ) (htp : TwoProdOK q D tp) (seq1 seq2 : List ℚ) (h1 : AllRep q seq1) (h2 : AllRep q seq2)
    (hD : ∀ a ∈ seq1, ∀ b ∈ seq2, D a b) (n : ℕ) :
    (mulDiag tp seq1 seq2 n).1.sum + (mulDiag tp seq1 seq2 n).2.sum = ∑ i1 ∈ range seq1.length, mulTerm seq1 seq2 n i1 ∧
    AllRep q (mulDiag tp seq1 seq2 n).1 ∧ AllRep q (mulDiag tp seq1 seq2 n).2 ∧
    (mulDiag tp seq1 seq2 n).1.length = (mulDiag tp seq1 seq2 n).2.length := by
  unfold mulDiag
  have key := foldl_pairs (q := q) (mulStep tp seq1 seq2 n)
    (fun i1 => if i1 < seq1.length then mulTerm seq1 seq2 n i1 else 0) ?_ (List.range seq1.length) ([], [])
    (by intro a ha; simp at ha) (by intro a ha; simp at ha) rfl
  · obtain ⟨k1, k2, k3, k4⟩ := key
    refine ⟨?_, k2, k3, k4⟩
    rw [k1, list_range_map_sum]
    simp only [List.sum_nil, zero_add]
    apply Finset.sum_congr rfl
    intro i hi
    rw [if_pos (Finset.mem_range.mp hi)]
  · intro acc i1 a1 a2 a3
    unfold mulStep
    by_cases hi : i1 < seq1.length
    · rw [if_pos hi]
      unfold mulTerm
      by_cases hc : i1 ≤ n ∧ n - i1 < seq2.length
      · simp only [hc, and_self, if_true]
        have e1 : seq1[i1]? = some (seq1.getD i1 0) := by simp [List.getD_eq_getElem?_getD, List.getElem?_eq_getElem hi]
        have e2 : seq2[n - i1]? = some (seq2.getD (n - i1) 0) := by simp [List.getD_eq_getElem?_getD, List.getElem?_eq_getElem hc.2]
        simp only [e1, e2]
        have ra : Rep q (seq1.getD i1 0) := by
          rw [List.getD_eq_getElem?_getD, List.getElem?_eq_getElem hi]; exact h1 _ (List.getElem_mem hi)
        have rb : Rep q (seq2.getD (n - i1) 0) := by
          rw [List.getD_eq_getElem?_getD, List.getElem?_eq_getElem hc.2]; exact h2 _ (List.getElem_mem hc.2)
        have dd : D (seq1.getD i1 0) (seq2.getD (n - i1) 0) := by
          rw [List.getD_eq_getElem?_getD, List.getElem?_eq_getElem hi, List.getD_eq_getElem?_getD, List.getElem?_eq_getElem hc.2]
          exact hD _ (List.getElem_mem hi) _ (List.getElem_mem hc.2)
        refine ⟨?_, allRep_append a1 ?_, allRep_append a2 ?_, by simp [a3]⟩
        · simp only [List.sum_append, List.sum_cons, List.sum_nil, add_zero]
          have := htp.exact _ _ ra rb dd
          linarith
        · intro a ha; simp at ha; subst ha; exact htp.rep1 _ _ ra rb dd
        · intro a ha; simp at ha; subst ha; exact htp.rep2 _ _ ra rb dd
      · simp only [hc, if_false]
        exact ⟨by ring, a1, a2, a3⟩
    · rw [if_neg hi]
      -- out of range (does not occur: the fold runs over range seq1.length)
      by_cases hc : i1 ≤ n ∧ n - i1 < seq2.length
      · simp only [hc, and_self, if_true]
        have e1 : seq1[i1]? = none := List.getElem?_eq_none (by omega)
        simp only [e1]
        exact ⟨by ring, a1, a2, a3⟩
      · simp only [hc, if_false]
        exact ⟨by ring, a1, a2, a3⟩

/-! ### the combinatorial identities -/

lemma diag_sum_mul (A B : ℕ → ℚ) (L1 L2 : ℕ) :
    ∑ n ∈ range (L1 + L2), ∑ i ∈ range L1, (if i ≤ n ∧ n - i < L2 then A i * B (n - i) else 0) =
      (∑ i ∈ range L1, A i) * (∑ j ∈ range L2, B j) := by
  rw [Finset.sum_comm, Finset.sum_mul_sum]
  apply Finset.sum_congr rfl
  intro i hi
  have hi' := Finset.mem_range.mp hi
  rw [← Finset.sum_filter]
  have hf : (range (L1 + L2)).filter (fun n => i ≤ n ∧ n - i < L2) = Ico i (i + L2) := by
    ext n
    simp only [Finset.mem_filter, Finset.mem_range, Finset.mem_Ico]
    constructor
    · rintro ⟨_, h1, h2⟩; exact ⟨h1, by omega⟩
    · rintro ⟨h1, h2⟩; exact ⟨by omega, h1, by omega⟩
  rw [hf, Finset.sum_Ico_eq_sum_range]
  simp

lemma sq_sum_identity (A : ℕ → ℚ) (L : ℕ) :
    ∑ i ∈ range L, ∑ j ∈ range L, (if i ≤ j then (if i < j then 2 else 1) * (A i * A j) else 0) = (∑ i ∈ range L, A i) ^ 2 := by
  induction L with
  | zero => simp
  | succ L ih =>
    rw [Finset.sum_range_succ, Finset.sum_range_succ (fun i => A i)]
    have h1 : ∀ i ∈ range L, ∑ j ∈ range (L + 1), (if i ≤ j then (if i < j then 2 else 1) * (A i * A j) else 0) =
        ∑ j ∈ range L, (if i ≤ j then (if i < j then 2 else 1) * (A i * A j) else 0) + 2 * (A i * A L) := by
      intro i hi
      have hi' := Finset.mem_range.mp hi
      rw [Finset.sum_range_succ]
      simp [hi'.le, hi']
    rw [Finset.sum_congr rfl h1, Finset.sum_add_distrib, ih]
    have h2 : ∑ j ∈ range (L + 1), (if L ≤ j then (if L < j then 2 else 1) * (A L * A j) else 0) = A L * A L := by
      rw [Finset.sum_range_succ]
      have : ∑ j ∈ range L, (if L ≤ j then (if L < j then 2 else 1) * (A L * A j) else 0) = 0 := by
        apply Finset.sum_eq_zero
        intro j hj
        have := Finset.mem_range.mp hj
        rw [if_neg (by omega)]
      rw [this]; simp
    rw [h2, ← Finset.mul_sum, ← Finset.sum_mul]
    ring

lemma diag_sum_sq (A : ℕ → ℚ) (L : ℕ) :
    ∑ n ∈ range (L * 2), ∑ i ∈ range L, (if i ≤ n ∧ i ≤ n - i ∧ n - i < L then (if i < n - i then 2 else 1) * (A i * A (n - i)) else 0) =
      (∑ i ∈ range L, A i) ^ 2 := by
  rw [← sq_sum_identity, Finset.sum_comm]
  apply Finset.sum_congr rfl
  intro i hi
  have hi' := Finset.mem_range.mp hi
  rw [← Finset.sum_filter]
  have hf : (range (L * 2)).filter (fun n => i ≤ n ∧ i ≤ n - i ∧ n - i < L) = Ico (i + i) (i + L) := by
    ext n
    simp only [Finset.mem_filter, Finset.mem_range, Finset.mem_Ico]
    constructor
    · rintro ⟨_, h1, h2, h3⟩; exact ⟨by omega, by omega⟩
    · rintro ⟨h1, h2⟩; exact ⟨by omega, by omega, by omega, by omega⟩
  rw [hf, Finset.sum_Ico_eq_sum_range]
  -- right side: j ranges over range L with i ≤ j, i.e. Ico i L
  rw [← Finset.sum_filter]
  have hg : (range L).filter (fun j => i ≤ j) = Ico i L := by
    ext j; simp only [Finset.mem_filter, Finset.mem_range, Finset.mem_Ico]; tauto
  rw [hg, Finset.sum_Ico_eq_sum_range]
  have : i + L - (i + i) = L - i := by omega
  rw [this]
  apply Finset.sum_congr rfl
  intro k hk
  have e : i + i + k - i = i + k := by omega
  rw [e]

/-- contribution of index i1 to diagonal n of `square` -/
def squareTerm (seq : List ℚ) (n i1 : ℕ) : ℚ :=
  if i1 ≤ n ∧ i1 ≤ n - i1 ∧ n - i1 < seq.length then (if i1 < n - i1 then 2 else 1) * (seq.getD i1 0 * seq.getD (n - i1) 0) else 0

theorem squareDiag_spec (hr : IsRN q r) (tp : ℚ → ℚ → ℚ × ℚ) (htp : TwoProdOK q D tp) (seq : List ℚ) (h1 : AllRep q seq)
    (hD : ∀ a ∈ seq, ∀ b ∈ seq, D a b) (n : ℕ) :
    (squareDiag (arithQ r) tp seq n).1.sum + (squareDiag (arithQ r) tp seq n).2.sum = ∑ i1 ∈ range seq.length, squareTerm seq n i1 ∧
    AllRep q (squareDiag (arithQ r) tp seq n).1 ∧ AllRep q (squareDiag (arithQ r) tp seq n).2 ∧
    (squareDiag (arithQ r) tp seq n).1.length = (squareDiag (arithQ r) tp seq n).2.length := by
  unfold squareDiag
  have key := foldl_pairs (q := q) (squareStep (arithQ r) tp seq n)
    (fun i1 => if i1 < seq.length then squareTerm seq n i1 else 0) ?_ (List.range seq.length) ([], [])
    (by intro a ha; simp at ha) (by intro a ha; simp at ha) rfl
  · obtain ⟨k1, k2, k3, k4⟩ := key
    refine ⟨?_, k2, k3, k4⟩
    rw [k1, list_range_map_sum]
    simp only [List.sum_nil, zero_add]
    apply Finset.sum_congr rfl
    intro i hi
    rw [if_pos (Finset.mem_range.mp hi)]
  · intro acc i1 a1 a2 a3
    unfold squareStep
    by_cases hi : i1 < seq.length
    · rw [if_pos hi]
      unfold squareTerm
      by_cases hc : i1 ≤ n ∧ i1 ≤ n - i1 ∧ n - i1 < seq.length
      · simp only [hc, and_self, if_true]
        have e1 : seq[i1]? = some (seq.getD i1 0) := by simp [List.getD_eq_getElem?_getD, List.getElem?_eq_getElem hi]
        have e2 : seq[n - i1]? = some (seq.getD (n - i1) 0) := by simp [List.getD_eq_getElem?_getD, List.getElem?_eq_getElem hc.2.2]
        simp only [e1, e2]
        have ra : Rep q (seq.getD i1 0) := by
          rw [List.getD_eq_getElem?_getD, List.getElem?_eq_getElem hi]; exact h1 _ (List.getElem_mem hi)
        have rb : Rep q (seq.getD (n - i1) 0) := by
          rw [List.getD_eq_getElem?_getD, List.getElem?_eq_getElem hc.2.2]; exact h1 _ (List.getElem_mem hc.2.2)
        have dd : D (seq.getD i1 0) (seq.getD (n - i1) 0) := by
          rw [List.getD_eq_getElem?_getD, List.getElem?_eq_getElem hi, List.getD_eq_getElem?_getD, List.getElem?_eq_getElem hc.2.2]
          exact hD _ (List.getElem_mem hi) _ (List.getElem_mem hc.2.2)
        have hex := htp.exact _ _ ra rb dd
        have r1 := htp.rep1 _ _ ra rb dd
        have r2 := htp.rep2 _ _ ra rb dd
        by_cases hlt : i1 < n - i1
        · simp only [hlt, if_true]
          rw [add_self_exact hr r1, add_self_exact hr r2]
          refine ⟨?_, allRep_append a1 ?_, allRep_append a2 ?_, by simp [a3]⟩
          · simp only [List.sum_append, List.sum_cons, List.sum_nil, add_zero]
            linarith
          · intro a ha; simp at ha; subst ha; exact rep_double r1
          · intro a ha; simp at ha; subst ha; exact rep_double r2
        · simp only [hlt, if_false]
          refine ⟨?_, allRep_append a1 ?_, allRep_append a2 ?_, by simp [a3]⟩
          · simp only [List.sum_append, List.sum_cons, List.sum_nil, add_zero]
            linarith
          · intro a ha; simp at ha; subst ha; exact r1
          · intro a ha; simp at ha; subst ha; exact r2
      · simp only [hc, if_false]
        exact ⟨by ring, a1, a2, a3⟩
    · rw [if_neg hi]
      by_cases hc : i1 ≤ n ∧ i1 ≤ n - i1 ∧ n - i1 < seq.length
      · simp only [hc, and_self, if_true]
        have e1 : seq[i1]? = none := List.getElem?_eq_none (by omega)
        simp only [e1]
        exact ⟨by ring, a1, a2, a3⟩
      · simp only [hc, if_false]
        exact ⟨by ring, a1, a2, a3⟩

/-- **`apmath.multiply` is exact before renormalisation**: every length, every precision, any round-to-nearest -/
theorem mulRaw_sum (hr : IsRN q r) (tp : ℚ → ℚ → ℚ × ℚ) (htp : TwoProdOK q D tp) (seq1 seq2 : List ℚ) (h1 : AllRep q seq1) (h2 : AllRep q seq2)
    (hD : ∀ a ∈ seq1, ∀ b ∈ seq2, D a b) (hne1 : seq1 ≠ []) (hne2 : seq2 ≠ []) :
    (mulRaw (arithQ r) tp false seq1 seq2).sum = seq1.sum * seq2.sum ∧ AllRep q (mulRaw (arithQ r) tp false seq1 seq2) := by
  obtain ⟨a, t1, rfl⟩ : ∃ a t, seq1 = a :: t := by cases seq1 with | nil => exact absurd rfl hne1 | cons a t => exact ⟨a, t, rfl⟩
  obtain ⟨b, t2, rfl⟩ : ∃ b t, seq2 = b :: t := by cases seq2 with | nil => exact absurd rfl hne2 | cons b t => exact ⟨b, t, rfl⟩
  have ra : Rep q a := h1 a (List.mem_cons_self ..)
  have rb : Rep q b := h2 b (List.mem_cons_self ..)
  have dab : D a b := hD a (List.mem_cons_self ..) b (List.mem_cons_self ..)
  have hd : ∀ n, AllRep q (mulDiag tp (a :: t1) (b :: t2) n).1 ∧ AllRep q (mulDiag tp (a :: t1) (b :: t2) n).2 :=
    fun n => ⟨(mulDiag_spec tp htp _ _ h1 h2 hD n).2.1, (mulDiag_spec tp htp _ _ h1 h2 hD n).2.2.1⟩
  have hnil : ∀ n, (mulDiag tp (a :: t1) (b :: t2) n).1 = [] → (mulDiag tp (a :: t1) (b :: t2) n).2 = [] := by
    intro n h
    have := (mulDiag_spec tp htp _ _ h1 h2 hD n).2.2.2
    rw [h] at this
    exact List.length_eq_zero_iff.mp this.symm
  obtain ⟨s1, s2, s3⟩ := accumulate_sum hr (mulDiag tp (a :: t1) (b :: t2)) hd hnil
    ((List.range ((a :: t1).length + (b :: t2).length)).drop 1) [(tp a b).1] [(tp a b).2]
    (by intro x hx; simp at hx; subst hx; exact htp.rep1 _ _ ra rb dab) (by intro x hx; simp at hx; subst hx; exact htp.rep2 _ _ ra rb dab)
  have hunf : mulRaw (arithQ r) tp false (a :: t1) (b :: t2) =
      (accumulate (arithQ r) false (mulDiag tp (a :: t1) (b :: t2)) ((List.range ((a :: t1).length + (b :: t2).length)).drop 1) ([(tp a b).1], [(tp a b).2])).1 ++
      (accumulate (arithQ r) false (mulDiag tp (a :: t1) (b :: t2)) ((List.range ((a :: t1).length + (b :: t2).length)).drop 1) ([(tp a b).1], [(tp a b).2])).2 := rfl
  rw [hunf]
  refine ⟨?_, allRep_append s2 s3⟩
  rw [List.sum_append, s1, List.sum_singleton, List.sum_singleton]
  have hmap : (((List.range ((a :: t1).length + (b :: t2).length)).drop 1).map fun n =>
      (mulDiag tp (a :: t1) (b :: t2) n).1.sum + (mulDiag tp (a :: t1) (b :: t2) n).2.sum) =
      (((List.range ((a :: t1).length + (b :: t2).length)).drop 1).map fun n => ∑ i1 ∈ range (a :: t1).length, mulTerm (a :: t1) (b :: t2) n i1) := by
    apply List.map_congr_left
    intro n _
    exact (mulDiag_spec tp htp _ _ h1 h2 hD n).1
  rw [hmap, list_range_drop_one_map_sum _ _ (by simp only [List.length_cons]; omega), htp.exact a b ra rb dab]
  have h0 : ∑ i1 ∈ range (a :: t1).length, mulTerm (a :: t1) (b :: t2) 0 i1 = a * b := by
    rw [List.length_cons, Finset.sum_range_succ']
    have : ∑ i ∈ range t1.length, mulTerm (a :: t1) (b :: t2) 0 (i + 1) = 0 := by
      apply Finset.sum_eq_zero; intro i _; unfold mulTerm; rw [if_neg (by omega)]
    rw [this, zero_add]
    unfold mulTerm
    rw [if_pos ⟨le_refl _, by simp⟩]
    simp
  rw [h0]
  have hid := diag_sum_mul (fun i => (a :: t1).getD i 0) (fun j => (b :: t2).getD j 0) (a :: t1).length (b :: t2).length
  rw [← list_sum_getD, ← list_sum_getD] at hid
  rw [← hid]
  unfold mulTerm
  ring

/-- **`apmath.square` is exact before renormalisation** -/
theorem squareRaw_sum (hr : IsRN q r) (tp : ℚ → ℚ → ℚ × ℚ) (htp : TwoProdOK q D tp) (seq : List ℚ) (h1 : AllRep q seq)
    (hD : ∀ a ∈ seq, ∀ b ∈ seq, D a b) (hne : seq ≠ []) :
    (squareRaw (arithQ r) tp false seq).sum = seq.sum ^ 2 ∧ AllRep q (squareRaw (arithQ r) tp false seq) := by
  obtain ⟨a, t1, rfl⟩ : ∃ a t, seq = a :: t := by cases seq with | nil => exact absurd rfl hne | cons a t => exact ⟨a, t, rfl⟩
  have ra : Rep q a := h1 a (List.mem_cons_self ..)
  have daa : D a a := hD a (List.mem_cons_self ..) a (List.mem_cons_self ..)
  have hd : ∀ n, AllRep q (squareDiag (arithQ r) tp (a :: t1) n).1 ∧ AllRep q (squareDiag (arithQ r) tp (a :: t1) n).2 :=
    fun n => ⟨(squareDiag_spec hr tp htp _ h1 hD n).2.1, (squareDiag_spec hr tp htp _ h1 hD n).2.2.1⟩
  have hnil : ∀ n, (squareDiag (arithQ r) tp (a :: t1) n).1 = [] → (squareDiag (arithQ r) tp (a :: t1) n).2 = [] := by
    intro n h
    have := (squareDiag_spec hr tp htp _ h1 hD n).2.2.2
    rw [h] at this
    exact List.length_eq_zero_iff.mp this.symm
  obtain ⟨s1, s2, s3⟩ := accumulate_sum hr (squareDiag (arithQ r) tp (a :: t1)) hd hnil
    ((List.range ((a :: t1).length * 2)).drop 1) [(tp a a).1] [(tp a a).2]
    (by intro x hx; simp at hx; subst hx; exact htp.rep1 _ _ ra ra daa) (by intro x hx; simp at hx; subst hx; exact htp.rep2 _ _ ra ra daa)
  have hunf : squareRaw (arithQ r) tp false (a :: t1) =
      (accumulate (arithQ r) false (squareDiag (arithQ r) tp (a :: t1)) ((List.range ((a :: t1).length * 2)).drop 1) ([(tp a a).1], [(tp a a).2])).1 ++
      (accumulate (arithQ r) false (squareDiag (arithQ r) tp (a :: t1)) ((List.range ((a :: t1).length * 2)).drop 1) ([(tp a a).1], [(tp a a).2])).2 := rfl
  rw [hunf]
  refine ⟨?_, allRep_append s2 s3⟩
  rw [List.sum_append, s1, List.sum_singleton, List.sum_singleton]
  have hmap : (((List.range ((a :: t1).length * 2)).drop 1).map fun n =>
      (squareDiag (arithQ r) tp (a :: t1) n).1.sum + (squareDiag (arithQ r) tp (a :: t1) n).2.sum) =
      (((List.range ((a :: t1).length * 2)).drop 1).map fun n => ∑ i1 ∈ range (a :: t1).length, squareTerm (a :: t1) n i1) := by
    apply List.map_congr_left
    intro n _
    exact (squareDiag_spec hr tp htp _ h1 hD n).1
  rw [hmap, list_range_drop_one_map_sum _ _ (by simp only [List.length_cons]; omega), htp.exact a a ra ra daa]
  have h0 : ∑ i1 ∈ range (a :: t1).length, squareTerm (a :: t1) 0 i1 = a * a := by
    rw [List.length_cons, Finset.sum_range_succ']
    have : ∑ i ∈ range t1.length, squareTerm (a :: t1) 0 (i + 1) = 0 := by
      apply Finset.sum_eq_zero; intro i _; unfold squareTerm; rw [if_neg (by omega)]
    rw [this, zero_add]
    unfold squareTerm
    rw [if_pos ⟨le_refl _, by simp, by simp⟩]
    simp
  rw [h0]
  have hid := diag_sum_sq (fun i => (a :: t1).getD i 0) (a :: t1).length
  rw [← list_sum_getD] at hid
  rw [← hid]
  unfold squareTerm
  ring

end FAVerif.Renorm
