/-
Relative rounding error of a round-to-nearest in the normal range, and a first accuracy theorem
built on it: the parts of the complex `square` algorithm, (x−y)(x+y) and 2xy.
-/
import FAVerif.Lemmas.Veltkamp
import Mathlib.Data.Int.Log

namespace FAVerif.FPQ

variable {f : QFmt} {r : ℚ → ℚ} (hr : IsRN f r)
include hr

/-- unit roundoff -/
def uro (f : QFmt) : ℚ := 1 / 2 ^ f.p

omit hr in
lemma uro_pos : 0 < uro f := by unfold uro; positivity

/-- **Relative error**: in the normal range (|z| ≥ 2^(emin+p−1)) a round-to-nearest errs by at most
2^−p·|z|.  Also for z = 0. -/
theorem rn_rel_err {z : ℚ} (hz : z = 0 ∨ 2 ^ (f.emin + f.p - 1) ≤ |z|) : |r z - z| ≤ uro f * |z| := by
  rcases hz with rfl | hz
  · have : Rep f 0 := ⟨0, f.emin, by simp, by positivity, le_refl _⟩
    rw [rn_id hr this]; simp
  · have hzpos : 0 < |z| := lt_of_lt_of_le (zpow_pos (by norm_num) _) hz
    set L := Int.log 2 |z| with hL
    have h1 : (2 : ℚ) ^ L ≤ |z| := Int.zpow_log_le_self (by norm_num) hzpos
    have h2 : |z| < (2 : ℚ) ^ (L + 1) := Int.lt_zpow_succ_log_self (by norm_num) |z|
    have hLge : f.emin + f.p - 1 ≤ L := by
      by_contra hc
      push Not at hc
      have : (2 : ℚ) ^ (L + 1) ≤ 2 ^ (f.emin + f.p - 1) := zpow_le_zpow_right₀ (by norm_num) (by omega)
      linarith
    set g : ℤ := L - (f.p - 1) with hg
    have hgmin : f.emin ≤ g := by omega
    have hpg : (2 : ℚ) ^ f.p * 2 ^ g = 2 ^ (L + 1) := by
      rw [← zpow_natCast, ← zpow_add₀ (by norm_num : (2 : ℚ) ≠ 0)]; congr 1; omega
    have herr := rn_err_grid hr hgmin (z := z) (by rw [hpg]; exact h2.le)
    have hgL : (2 : ℚ) ^ g / 2 = uro f * 2 ^ L := by
      unfold uro
      have hp : (0 : ℚ) < 2 ^ f.p := by positivity
      -- 2^L = 2^g · 2^p / 2, from hpg
      have h2L : (2 : ℚ) ^ (L + 1) = 2 ^ L * 2 := by
        rw [zpow_add₀ (by norm_num : (2 : ℚ) ≠ 0)]; norm_num
      rw [h2L] at hpg
      field_simp
      linarith
    calc |r z - z| ≤ 2 ^ g / 2 := herr
      _ = uro f * 2 ^ L := hgL
      _ ≤ uro f * |z| := mul_le_mul_of_nonneg_left h1 uro_pos.le

/-- **Accuracy of a rounded product of two rounded terms**: c = RN(RN(A)·RN(B)) with every rounding in
the normal range (or exact zero): |c − A·B| ≤ ((1+u)³ − 1)·|A·B|, u = 2^−p. -/
theorem prod_of_rounded_err {A B : ℚ} (hA : A = 0 ∨ 2 ^ (f.emin + f.p - 1) ≤ |A|) (hB : B = 0 ∨ 2 ^ (f.emin + f.p - 1) ≤ |B|)
    (hAB : r A * r B = 0 ∨ 2 ^ (f.emin + f.p - 1) ≤ |r A * r B|) :
    |r (r A * r B) - A * B| ≤ ((1 + uro f) ^ 3 - 1) * |A * B| := by
  set u := uro f with hu
  have hu0 : 0 ≤ u := uro_pos.le
  have ea := rn_rel_err hr hA
  have eb := rn_rel_err hr hB
  have ec := rn_rel_err hr hAB
  set a := r A with ha
  set b := r B with hb
  set c := r (a * b) with hc
  have hAn := abs_nonneg A
  have hBn := abs_nonneg B
  -- |ab − AB| ≤ (2u + u²)|A||B|
  have h1 : a * b - A * B = A * (b - B) + B * (a - A) + (a - A) * (b - B) := by ring
  have e1 : |a * b - A * B| ≤ (2 * u + u ^ 2) * (|A| * |B|) := by
    rw [h1]
    calc |A * (b - B) + B * (a - A) + (a - A) * (b - B)|
        ≤ |A * (b - B)| + |B * (a - A)| + |(a - A) * (b - B)| := abs_add_three _ _ _
      _ = |A| * |b - B| + |B| * |a - A| + |a - A| * |b - B| := by rw [abs_mul, abs_mul, abs_mul]
      _ ≤ |A| * (u * |B|) + |B| * (u * |A|) + (u * |A|) * (u * |B|) := by
          have t1 := mul_le_mul_of_nonneg_left eb hAn
          have t2 := mul_le_mul_of_nonneg_left ea hBn
          have t3 := mul_le_mul ea eb (abs_nonneg _) (mul_nonneg hu0 hAn)
          linarith
      _ = (2 * u + u ^ 2) * (|A| * |B|) := by ring
  have e2 : |a * b| ≤ (1 + u) ^ 2 * (|A| * |B|) := by
    have : |a * b| ≤ |A * B| + |a * b - A * B| := by
      have := abs_add_le (A * B) (a * b - A * B)
      simpa using this
    rw [abs_mul A B] at this
    calc |a * b| ≤ |A| * |B| + (2 * u + u ^ 2) * (|A| * |B|) := by linarith
      _ = (1 + u) ^ 2 * (|A| * |B|) := by ring
  have e3 : |c - a * b| ≤ u * ((1 + u) ^ 2 * (|A| * |B|)) := le_trans ec (mul_le_mul_of_nonneg_left e2 hu0)
  have h2 : c - A * B = (c - a * b) + (a * b - A * B) := by ring
  rw [h2, abs_mul A B]
  calc |c - a * b + (a * b - A * B)| ≤ |c - a * b| + |a * b - A * B| := abs_add_le _ _
    _ ≤ u * ((1 + u) ^ 2 * (|A| * |B|)) + (2 * u + u ^ 2) * (|A| * |B|) := add_le_add e3 e1
    _ = ((1 + u) ^ 3 - 1) * (|A| * |B|) := by ring

end FAVerif.FPQ
