/-
Refinement: the BIT-EXACT evaluation of a traced program (`evalNodes`, softfloat of `FP/Soft.lean`)
refines its evaluation over ℚ with round-to-nearest-even (`evalNodesQ … (rne …)`) whenever every
floating-point node of the run is finite (no overflow, no invalid operation).  Proved once for every
program in the arithmetic / comparison / select fragment, every format with p ≥ 2, ew ≥ 2 and every
input; the kind discipline (which nodes hold booleans) is a decidable check `kindsOf`.

Consequence: every theorem proved about `evalQ` for an arbitrary round-to-nearest (2Sum, Fast2Sum,
Veltkamp, Dekker, …) holds for the bit patterns the regenerated programs compute.
-/
import FAVerif.Lemmas.EFTSoft
import FAVerif.Lemmas.SoftCongr
import FAVerif.Lemmas.Ulp
import FAVerif.IR.EvalQ

namespace FAVerif.Refine
open FAVerif.IR FAVerif.FP FAVerif.FPQ FAVerif.SoftRound

variable {f : Fmt}

/-! ### values of finite patterns -/

lemma toQ_of_finite (f : Fmt) (b : Nat) (h : isFiniteBits f b = true) : ∃ q, toQ f b = some q := by
  obtain ⟨s, m, e, hd⟩ := finite_decode f b h
  exact ⟨_, toQ_fin f b s m e hd⟩

lemma notNaN_of_finite (f : Fmt) (b : Nat) (h : isFiniteBits f b = true) : isNaNBits f b = false := by
  obtain ⟨s, m, e, hd⟩ := finite_decode f b h
  simp [isNaNBits, hd, V.isNaN]

/-- value of a finite pattern in units of 2^emin -/
lemma toQ_sval (hf : WF f) (b : Nat) (h : isFiniteBits f b = true) :
    toQ f b = some ((FAVerif.Ulp.sval f b : ℚ) * (2 : ℚ) ^ f.emin) := by
  have := FAVerif.Ulp.decode_sval' f ⟨hf.hp, hf.hew⟩ b h
  unfold toQ
  rw [this, pow2_eq]

lemma val_lt_iff (hf : WF f) {a b : Nat} {qa qb : ℚ} (ha : isFiniteBits f a = true) (hb : isFiniteBits f b = true)
    (va : toQ f a = some qa) (vb : toQ f b = some qb) : qa < qb ↔ ord f a < ord f b := by
  rw [toQ_sval hf a ha] at va; rw [toQ_sval hf b hb] at vb
  cases va; cases vb
  have hpos : (0 : ℚ) < 2 ^ f.emin := zpow_pos (by norm_num) _
  rw [← FAVerif.Ulp.sval_lt_iff]
  constructor
  · intro h
    have := lt_of_mul_lt_mul_right h hpos.le
    exact_mod_cast this
  · intro h
    have : ((FAVerif.Ulp.sval f a : ℤ) : ℚ) < (FAVerif.Ulp.sval f b : ℤ) := by exact_mod_cast h
    exact mul_lt_mul_of_pos_right this hpos

lemma val_eq_iff (hf : WF f) {a b : Nat} {qa qb : ℚ} (ha : isFiniteBits f a = true) (hb : isFiniteBits f b = true)
    (va : toQ f a = some qa) (vb : toQ f b = some qb) : qa = qb ↔ ord f a = ord f b := by
  have h1 := val_lt_iff hf ha hb va vb
  have h2 := val_lt_iff hf hb ha vb va
  constructor
  · intro h
    have n1 : ¬ qa < qb := by rw [h]; exact lt_irrefl _
    have n2 : ¬ qb < qa := by rw [h]; exact lt_irrefl _
    rw [h1] at n1; rw [h2] at n2; omega
  · intro h
    have n1 : ¬ qa < qb := by rw [h1, h]; exact lt_irrefl _
    have n2 : ¬ qb < qa := by rw [h2, h]; exact lt_irrefl _
    exact le_antisymm (not_lt.mp n2) (not_lt.mp n1)

lemma lt_val (hf : WF f) {a b : Nat} {qa qb : ℚ} (ha : isFiniteBits f a = true) (hb : isFiniteBits f b = true)
    (va : toQ f a = some qa) (vb : toQ f b = some qb) : FP.lt f a b = decide (qa < qb) := by
  unfold FP.lt
  rw [notNaN_of_finite f a ha, notNaN_of_finite f b hb]
  simp only [Bool.not_false, Bool.true_and]
  exact decide_eq_decide.mpr (val_lt_iff hf ha hb va vb).symm

lemma le_val (hf : WF f) {a b : Nat} {qa qb : ℚ} (ha : isFiniteBits f a = true) (hb : isFiniteBits f b = true)
    (va : toQ f a = some qa) (vb : toQ f b = some qb) : FP.le f a b = decide (qa ≤ qb) := by
  unfold FP.le
  rw [notNaN_of_finite f a ha, notNaN_of_finite f b hb]
  simp only [Bool.not_false, Bool.true_and]
  apply decide_eq_decide.mpr
  have h2 := val_lt_iff hf hb ha vb va
  constructor
  · intro h; exact not_lt.mp (fun hc => by rw [h2] at hc; omega)
  · intro h; have : ¬ qb < qa := not_lt.mpr h; rw [h2] at this; omega

lemma eq_val (hf : WF f) {a b : Nat} {qa qb : ℚ} (ha : isFiniteBits f a = true) (hb : isFiniteBits f b = true)
    (va : toQ f a = some qa) (vb : toQ f b = some qb) : FP.eq f a b = decide (qa = qb) := by
  unfold FP.eq
  rw [notNaN_of_finite f a ha, notNaN_of_finite f b hb]
  simp only [Bool.not_false, Bool.true_and]
  exact decide_eq_decide.mpr (val_eq_iff hf ha hb va vb).symm

lemma neg_val (hf : WF f) {a : Nat} {qa : ℚ} (ha : isFiniteBits f a = true) (va : toQ f a = some qa) :
    isFiniteBits f (FP.neg f a) = true ∧ toQ f (FP.neg f a) = some (-qa) := by
  refine ⟨by rw [isFinite_neg f hf]; exact ha, ?_⟩
  obtain ⟨s, m, e, hd⟩ := finite_decode f a ha
  have := decode_neg_all f hf a
  rw [hd] at this
  rw [toQ_fin f a s m e hd] at va; cases va
  rw [toQ_fin f _ (!s) m e this, valQ_neg]

lemma abs_val (hf : WF f) {a : Nat} {qa : ℚ} (ha : isFiniteBits f a = true) (va : toQ f a = some qa) :
    isFiniteBits f (FP.abs f a) = true ∧ toQ f (FP.abs f a) = some (if qa < 0 then -qa else qa) := by
  have hfa := fields_abs f hf a
  have hfin : isFiniteBits f (FP.abs f a) = true := by
    unfold isFiniteBits at ha ⊢; rw [hfa]; exact ha
  refine ⟨hfin, ?_⟩
  obtain ⟨s, m, e, hd⟩ := finite_decode f a ha
  have hd' : decode f (FP.abs f a) = .fin false m e := by
    unfold decode at hd ⊢
    rw [hfa]
    simp only at hd ⊢
    split_ifs at hd ⊢ with h1 h2 <;> first
      | (cases hd; rfl)
      | (exact absurd hd (by simp))
  rw [toQ_fin f a s m e hd] at va; cases va
  rw [toQ_fin f _ false m e hd']
  congr 1
  have h2e : (0 : ℚ) < 2 ^ e := zpow_pos (by norm_num) _
  cases s
  · simp only [valQ, Bool.false_eq_true, if_false, one_mul]
    have : ¬ ((m : ℚ) * 2 ^ e < 0) := not_lt.mpr (by positivity)
    rw [if_neg this]
  · simp only [valQ, if_true, Bool.false_eq_true, if_false, one_mul, neg_one_mul]
    by_cases hm : m = 0
    · subst hm; simp
    · have : -(m : ℚ) * 2 ^ e < 0 := by
        have : (0 : ℚ) < m := by exact_mod_cast Nat.pos_of_ne_zero hm
        have := mul_pos this h2e
        linarith
      rw [if_pos this]; ring

end FAVerif.Refine

namespace FAVerif.Refine
open FAVerif.IR FAVerif.FP FAVerif.FPQ FAVerif.SoftRound

variable {f : Fmt}

/-! ### kinds -/

/-- kind of the value a node holds (`true` = boolean, `false` = float), `none` if the node is outside
the fragment or ill-kinded -/
def kindStep (kinds : List Bool) (n : Node) : Option Bool :=
  let k (i : Nat) : Option Bool := n.args[i]? >>= fun j => kinds[j]?
  match n.op with
  | .input => some false
  | .const => some false
  | .bconst => if n.imm ≤ 1 then some true else none
  | .add => if k 0 = some false ∧ k 1 = some false then some false else none
  | .sub => if k 0 = some false ∧ k 1 = some false then some false else none
  | .mul => if k 0 = some false ∧ k 1 = some false then some false else none
  | .div => if k 0 = some false ∧ k 1 = some false then some false else none
  | .pymax => if k 0 = some false ∧ k 1 = some false then some false else none
  | .pymin => if k 0 = some false ∧ k 1 = some false then some false else none
  | .neg => if k 0 = some false then some false else none
  | .abs => if k 0 = some false then some false else none
  | .lt => if k 0 = some false ∧ k 1 = some false then some true else none
  | .le => if k 0 = some false ∧ k 1 = some false then some true else none
  | .gt => if k 0 = some false ∧ k 1 = some false then some true else none
  | .ge => if k 0 = some false ∧ k 1 = some false then some true else none
  | .eq => if k 0 = some false ∧ k 1 = some false then some true else none
  | .ne => if k 0 = some false ∧ k 1 = some false then some true else none
  | .and => if k 0 = some true ∧ k 1 = some true then some true else none
  | .or => if k 0 = some true ∧ k 1 = some true then some true else none
  | .not => if k 0 = some true then some true else none
  | .isfinite => if k 0 = some false then some true else none
  | .select => if k 0 = some true ∧ k 1 = k 2 then k 1 else none
  | _ => none

def kindsOf : List Node → List Bool → Option (List Bool)
  | [], ks => some ks
  | n :: ns, ks => do
    let k ← kindStep ks n
    kindsOf ns (ks ++ [k])

/-- relation between a bit-level value and a rational value, by kind -/
def Rv (f : Fmt) (isB : Bool) (v : Nat) (q : ℚ) : Prop :=
  if isB then (v = 0 ∨ v = 1) ∧ q = (v : ℚ) else isFiniteBits f v = true ∧ toQ f v = some q

structure Inv (f : Fmt) (kinds : List Bool) (env : Array Nat) (envQ : List ℚ) : Prop where
  len1 : kinds.length = env.size
  len2 : envQ.length = env.size
  rel : ∀ (i : Nat) (k : Bool), kinds[i]? = some k → ∃ v q, env[i]? = some v ∧ envQ[i]? = some q ∧ Rv f k v q

def InsRel (f : Fmt) (ins : List Nat) (insQ : List ℚ) : Prop :=
  ins.length = insQ.length ∧ ∀ (i : Nat) (v : Nat), ins[i]? = some v → ∃ q, insQ[i]? = some q ∧ Rv f false v q

lemma rv_bool {v : Nat} {q : ℚ} (h : Rv f true v q) : (v = 0 ∨ v = 1) ∧ q = (v : ℚ) := by simpa [Rv] using h
lemma rv_float {v : Nat} {q : ℚ} (h : Rv f false v q) : isFiniteBits f v = true ∧ toQ f v = some q := by simpa [Rv] using h

lemma rv_b2n (b : Bool) : Rv f true (b2n b) (q2b b) := by
  cases b <;> simp [Rv, b2n, q2b]

/-- lookup of an argument of kind `k` in both environments -/
lemma arg_rel {kinds : List Bool} {env : Array Nat} {envQ : List ℚ} (hinv : Inv f kinds env envQ) {args : List Nat} {i : Nat} {k : Bool}
    (hk : (args[i]? >>= fun j => kinds[j]?) = some k) :
    ∃ v q, (args[i]? >>= fun j => env[j]?) = some v ∧ (args[i]? >>= fun j => envQ[j]?) = some q ∧ Rv f k v q := by
  cases hj : args[i]? with
  | none => simp [hj] at hk
  | some j =>
    simp only [hj, Option.bind_eq_bind, Option.bind_some] at hk ⊢
    exact hinv.rel j k hk

lemma bool_truth {v : Nat} {q : ℚ} (h : Rv f true v q) : (v != 0) = decide (q ≠ 0) ∧ (v == 0) = decide (q = 0) := by
  obtain ⟨hv, hq⟩ := rv_bool h
  rcases hv with rfl | rfl <;> simp [hq]

end FAVerif.Refine

namespace FAVerif.Refine
open FAVerif.IR FAVerif.FP FAVerif.FPQ FAVerif.SoftRound

variable {f : Fmt}

lemma float_decode {v : Nat} {q : ℚ} (h : Rv f false v q) :
    ∃ s m e, decode f v = .fin s m e ∧ q = valQ s m e ∧ isFiniteBits f v = true := by
  obtain ⟨h1, h2⟩ := rv_float h
  obtain ⟨s, m, e, hd⟩ := finite_decode f v h1
  rw [toQ_fin f v s m e hd] at h2
  exact ⟨s, m, e, hd, (Option.some.inj h2).symm, h1⟩

lemma rv_float_mk {v : Nat} {q : ℚ} (h1 : isFiniteBits f v = true) (h2 : toQ f v = some q) : Rv f false v q := by
  simp only [Rv, Bool.false_eq_true, if_false]; exact ⟨h1, h2⟩

/-- a finite quotient has a non-zero divisor -/
lemma div_finite_divisor (hf : WF f) {a b : Nat} {s t : Bool} {m n : Nat} {e e' : Int}
    (da : decode f a = .fin s m e) (db : decode f b = .fin t n e') (h : isFiniteBits f (FP.div f a b) = true) : n ≠ 0 := by
  intro hn
  subst hn
  have hd : FP.div f a b = if m = 0 then f.nanBits else f.infBitsS (s != t) := by simp [FP.div, da, db]
  rw [hd] at h
  split_ifs at h
  · have := isNaN_nanBits f hf
    have h2 := notNaN_of_finite f _ h
    rw [this] at h2; cases h2
  · have hdi := decode_infBitsS f hf (s != t)
    obtain ⟨s', m', e'', hd'⟩ := finite_decode f _ h
    rw [hdi] at hd'; cases hd'

lemma valQ_ne_zero {s : Bool} {m : Nat} {e : Int} (hm : m ≠ 0) : valQ s m e ≠ 0 := by
  have h2e : (0 : ℚ) < 2 ^ e := zpow_pos (by norm_num) _
  have hmq : (0 : ℚ) < m := by exact_mod_cast Nat.pos_of_ne_zero hm
  have hp : (0 : ℚ) < (m : ℚ) * 2 ^ e := mul_pos hmq h2e
  cases s
  · simp only [valQ, Bool.false_eq_true, if_false, one_mul]; exact hp.ne'
  · simp only [valQ, if_true, neg_one_mul]
    have : -(m : ℚ) * 2 ^ e = -((m : ℚ) * 2 ^ e) := by ring
    rw [this]; exact neg_ne_zero.mpr hp.ne'

set_option maxHeartbeats 1000000 in
/-- one node: the bit-level value is related to the rational value -/
theorem step (hf : WF f) (lib : Libm) (ins : List Nat) (insQ : List ℚ) (hins : InsRel f ins insQ)
    (kinds : List Bool) (env : Array Nat) (envQ : List ℚ) (hinv : Inv f kinds env envQ) (n : Node) (k : Bool)
    (hk : kindStep kinds n = some k) (v : Nat) (hv : evalNode f lib ins env n = some v)
    (hfin : k = false → isFiniteBits f v = true) :
    ∃ q, evalNodeQ f (rne (qf f hf.hp)) insQ envQ n = some q ∧ Rv f k v q := by
  unfold kindStep at hk
  unfold evalNode at hv
  unfold evalNodeQ
  cases hop : n.op <;> simp only [hop] at hk hv ⊢
  case input =>
    cases hk
    obtain ⟨q, hq, hr⟩ := hins.2 n.imm v hv
    exact ⟨q, hq, hr⟩
  case const =>
    cases hk; cases hv
    have hF := hfin rfl
    obtain ⟨q, hq⟩ := toQ_of_finite f n.imm hF
    exact ⟨q, hq, rv_float_mk hF hq⟩
  case bconst =>
    split at hk
    · rename_i hle
      cases hk; cases hv
      refine ⟨_, rfl, ?_⟩
      have : n.imm = 0 ∨ n.imm = 1 := by omega
      rcases this with h | h <;> simp [Rv, h, q2b]
    · cases hk
  case add =>
    split at hk
    · rename_i hkk
      cases hk
      obtain ⟨a, qa, ea, eqa, ra⟩ := arg_rel hinv hkk.1
      obtain ⟨b, qb, eb, eqb, rb⟩ := arg_rel hinv hkk.2
      simp only [ea, eb, eqa, eqb, Option.bind_eq_bind, Option.bind_some, Option.some.injEq] at hv ⊢
      subst hv
      obtain ⟨s, m, e, da, rfl, fa⟩ := float_decode ra
      obtain ⟨t, m', e', db, rfl, fb⟩ := float_decode rb
      have hF := hfin rfl
      exact ⟨_, rfl, rv_float_mk hF (add_correct f hf a b s t m m' e e' da db hF)⟩
    · cases hk
  case sub =>
    split at hk
    · rename_i hkk
      cases hk
      obtain ⟨a, qa, ea, eqa, ra⟩ := arg_rel hinv hkk.1
      obtain ⟨b, qb, eb, eqb, rb⟩ := arg_rel hinv hkk.2
      simp only [ea, eb, eqa, eqb, Option.bind_eq_bind, Option.bind_some, Option.some.injEq] at hv ⊢
      subst hv
      obtain ⟨s, m, e, da, rfl, fa⟩ := float_decode ra
      obtain ⟨t, m', e', db, rfl, fb⟩ := float_decode rb
      have hF := hfin rfl
      exact ⟨_, rfl, rv_float_mk hF (sub_correct f hf a b s t m m' e e' da db hF)⟩
    · cases hk
  case mul =>
    split at hk
    · rename_i hkk
      cases hk
      obtain ⟨a, qa, ea, eqa, ra⟩ := arg_rel hinv hkk.1
      obtain ⟨b, qb, eb, eqb, rb⟩ := arg_rel hinv hkk.2
      simp only [ea, eb, eqa, eqb, Option.bind_eq_bind, Option.bind_some, Option.some.injEq] at hv ⊢
      subst hv
      obtain ⟨s, m, e, da, rfl, fa⟩ := float_decode ra
      obtain ⟨t, m', e', db, rfl, fb⟩ := float_decode rb
      have hF := hfin rfl
      exact ⟨_, rfl, rv_float_mk hF (mul_correct f hf a b s t m m' e e' da db hF)⟩
    · cases hk
  case div =>
    split at hk
    · rename_i hkk
      cases hk
      obtain ⟨a, qa, ea, eqa, ra⟩ := arg_rel hinv hkk.1
      obtain ⟨b, qb, eb, eqb, rb⟩ := arg_rel hinv hkk.2
      simp only [ea, eb, eqa, eqb, Option.bind_eq_bind, Option.bind_some, Option.some.injEq] at hv ⊢
      subst hv
      obtain ⟨s, m, e, da, rfl, fa⟩ := float_decode ra
      obtain ⟨t, m', e', db, rfl, fb⟩ := float_decode rb
      have hF := hfin rfl
      have hn := div_finite_divisor hf da db hF
      rw [if_neg (valQ_ne_zero hn)]
      exact ⟨_, rfl, rv_float_mk hF (div_correct f hf a b s t m m' e e' da db hn hF)⟩
    · cases hk
  case neg =>
    split at hk
    · rename_i hkk
      cases hk
      obtain ⟨a, qa, ea, eqa, ra⟩ := arg_rel hinv hkk
      simp only [ea, eqa, Option.bind_eq_bind, Option.bind_some, Option.some.injEq] at hv ⊢
      subst hv
      obtain ⟨h1, h2⟩ := rv_float ra
      obtain ⟨g1, g2⟩ := neg_val hf h1 h2
      exact ⟨_, rfl, rv_float_mk g1 g2⟩
    · cases hk
  case abs =>
    split at hk
    · rename_i hkk
      cases hk
      obtain ⟨a, qa, ea, eqa, ra⟩ := arg_rel hinv hkk
      simp only [ea, eqa, Option.bind_eq_bind, Option.bind_some, Option.some.injEq] at hv ⊢
      subst hv
      obtain ⟨h1, h2⟩ := rv_float ra
      obtain ⟨g1, g2⟩ := abs_val hf h1 h2
      exact ⟨_, rfl, rv_float_mk g1 g2⟩
    · cases hk
  case pymax =>
    split at hk
    · rename_i hkk
      cases hk
      obtain ⟨a, qa, ea, eqa, ra⟩ := arg_rel hinv hkk.1
      obtain ⟨b, qb, eb, eqb, rb⟩ := arg_rel hinv hkk.2
      simp only [ea, eb, eqa, eqb, Option.bind_eq_bind, Option.bind_some, Option.some.injEq] at hv ⊢
      subst hv
      obtain ⟨h1, h2⟩ := rv_float ra
      obtain ⟨h3, h4⟩ := rv_float rb
      rw [lt_val hf h1 h3 h2 h4]
      by_cases hc : qa < qb
      · simp only [hc, decide_true, if_true]; exact ⟨_, rfl, rb⟩
      · simp only [hc, decide_false, Bool.false_eq_true, if_false]; exact ⟨_, rfl, ra⟩
    · cases hk
  case pymin =>
    split at hk
    · rename_i hkk
      cases hk
      obtain ⟨a, qa, ea, eqa, ra⟩ := arg_rel hinv hkk.1
      obtain ⟨b, qb, eb, eqb, rb⟩ := arg_rel hinv hkk.2
      simp only [ea, eb, eqa, eqb, Option.bind_eq_bind, Option.bind_some, Option.some.injEq] at hv ⊢
      subst hv
      obtain ⟨h1, h2⟩ := rv_float ra
      obtain ⟨h3, h4⟩ := rv_float rb
      rw [lt_val hf h3 h1 h4 h2]
      by_cases hc : qb < qa
      · simp only [hc, decide_true, if_true]; exact ⟨_, rfl, rb⟩
      · simp only [hc, decide_false, Bool.false_eq_true, if_false]; exact ⟨_, rfl, ra⟩
    · cases hk
  case lt =>
    split at hk
    · rename_i hkk
      cases hk
      obtain ⟨a, qa, ea, eqa, ra⟩ := arg_rel hinv hkk.1
      obtain ⟨b, qb, eb, eqb, rb⟩ := arg_rel hinv hkk.2
      simp only [ea, eb, eqa, eqb, Option.bind_eq_bind, Option.bind_some, Option.some.injEq] at hv ⊢
      subst hv
      obtain ⟨h1, h2⟩ := rv_float ra
      obtain ⟨h3, h4⟩ := rv_float rb
      rw [lt_val hf h1 h3 h2 h4]
      exact ⟨_, rfl, rv_b2n _⟩
    · cases hk
  case le =>
    split at hk
    · rename_i hkk
      cases hk
      obtain ⟨a, qa, ea, eqa, ra⟩ := arg_rel hinv hkk.1
      obtain ⟨b, qb, eb, eqb, rb⟩ := arg_rel hinv hkk.2
      simp only [ea, eb, eqa, eqb, Option.bind_eq_bind, Option.bind_some, Option.some.injEq] at hv ⊢
      subst hv
      obtain ⟨h1, h2⟩ := rv_float ra
      obtain ⟨h3, h4⟩ := rv_float rb
      rw [le_val hf h1 h3 h2 h4]
      exact ⟨_, rfl, rv_b2n _⟩
    · cases hk
  case gt =>
    split at hk
    · rename_i hkk
      cases hk
      obtain ⟨a, qa, ea, eqa, ra⟩ := arg_rel hinv hkk.1
      obtain ⟨b, qb, eb, eqb, rb⟩ := arg_rel hinv hkk.2
      simp only [ea, eb, eqa, eqb, Option.bind_eq_bind, Option.bind_some, Option.some.injEq] at hv ⊢
      subst hv
      obtain ⟨h1, h2⟩ := rv_float ra
      obtain ⟨h3, h4⟩ := rv_float rb
      unfold FP.gt
      rw [lt_val hf h3 h1 h4 h2]
      exact ⟨_, rfl, rv_b2n _⟩
    · cases hk
  case ge =>
    split at hk
    · rename_i hkk
      cases hk
      obtain ⟨a, qa, ea, eqa, ra⟩ := arg_rel hinv hkk.1
      obtain ⟨b, qb, eb, eqb, rb⟩ := arg_rel hinv hkk.2
      simp only [ea, eb, eqa, eqb, Option.bind_eq_bind, Option.bind_some, Option.some.injEq] at hv ⊢
      subst hv
      obtain ⟨h1, h2⟩ := rv_float ra
      obtain ⟨h3, h4⟩ := rv_float rb
      unfold FP.ge
      rw [le_val hf h3 h1 h4 h2]
      exact ⟨_, rfl, rv_b2n _⟩
    · cases hk
  case eq =>
    split at hk
    · rename_i hkk
      cases hk
      obtain ⟨a, qa, ea, eqa, ra⟩ := arg_rel hinv hkk.1
      obtain ⟨b, qb, eb, eqb, rb⟩ := arg_rel hinv hkk.2
      simp only [ea, eb, eqa, eqb, Option.bind_eq_bind, Option.bind_some, Option.some.injEq] at hv ⊢
      subst hv
      obtain ⟨h1, h2⟩ := rv_float ra
      obtain ⟨h3, h4⟩ := rv_float rb
      rw [eq_val hf h1 h3 h2 h4]
      exact ⟨_, rfl, rv_b2n _⟩
    · cases hk
  case ne =>
    split at hk
    · rename_i hkk
      cases hk
      obtain ⟨a, qa, ea, eqa, ra⟩ := arg_rel hinv hkk.1
      obtain ⟨b, qb, eb, eqb, rb⟩ := arg_rel hinv hkk.2
      simp only [ea, eb, eqa, eqb, Option.bind_eq_bind, Option.bind_some, Option.some.injEq] at hv ⊢
      subst hv
      obtain ⟨h1, h2⟩ := rv_float ra
      obtain ⟨h3, h4⟩ := rv_float rb
      unfold FP.ne
      rw [eq_val hf h1 h3 h2 h4]
      refine ⟨_, rfl, ?_⟩
      have : (!decide (qa = qb)) = decide (qa ≠ qb) := by simp
      rw [this]; exact rv_b2n _
    · cases hk
  case and =>
    split at hk
    · rename_i hkk
      cases hk
      obtain ⟨a, qa, ea, eqa, ra⟩ := arg_rel hinv hkk.1
      obtain ⟨b, qb, eb, eqb, rb⟩ := arg_rel hinv hkk.2
      simp only [ea, eb, eqa, eqb, Option.bind_eq_bind, Option.bind_some, Option.some.injEq] at hv ⊢
      subst hv
      rw [(bool_truth ra).1, (bool_truth rb).1]
      refine ⟨_, rfl, ?_⟩
      have : (decide (qa ≠ 0) && decide (qb ≠ 0)) = decide (qa ≠ 0 ∧ qb ≠ 0) := by simp
      rw [this]; exact rv_b2n _
    · cases hk
  case or =>
    split at hk
    · rename_i hkk
      cases hk
      obtain ⟨a, qa, ea, eqa, ra⟩ := arg_rel hinv hkk.1
      obtain ⟨b, qb, eb, eqb, rb⟩ := arg_rel hinv hkk.2
      simp only [ea, eb, eqa, eqb, Option.bind_eq_bind, Option.bind_some, Option.some.injEq] at hv ⊢
      subst hv
      rw [(bool_truth ra).1, (bool_truth rb).1]
      refine ⟨_, rfl, ?_⟩
      have : (decide (qa ≠ 0) || decide (qb ≠ 0)) = decide (qa ≠ 0 ∨ qb ≠ 0) := by simp
      rw [this]; exact rv_b2n _
    · cases hk
  case not =>
    split at hk
    · rename_i hkk
      cases hk
      obtain ⟨a, qa, ea, eqa, ra⟩ := arg_rel hinv hkk
      simp only [ea, eqa, Option.bind_eq_bind, Option.bind_some, Option.some.injEq] at hv ⊢
      subst hv
      rw [(bool_truth ra).2]
      exact ⟨_, rfl, rv_b2n _⟩
    · cases hk
  case isfinite =>
    split at hk
    · rename_i hkk
      cases hk
      obtain ⟨a, qa, ea, eqa, ra⟩ := arg_rel hinv hkk
      simp only [ea, eqa, Option.bind_eq_bind, Option.bind_some, Option.some.injEq] at hv ⊢
      subst hv
      rw [(rv_float ra).1]
      exact ⟨_, rfl, rv_b2n _⟩
    · cases hk
  case select =>
    split at hk
    · rename_i hkk
      obtain ⟨c, qc, ec, eqc, rc⟩ := arg_rel hinv hkk.1
      obtain ⟨a, qa, ea, eqa, ra⟩ := arg_rel hinv hk
      have hk2 := hk; rw [hkk.2] at hk2
      obtain ⟨b, qb, eb, eqb, rb⟩ := arg_rel hinv hk2
      simp only [ec, ea, eb, eqc, eqa, eqb, Option.bind_eq_bind, Option.bind_some, Option.some.injEq] at hv ⊢
      subst hv
      have ht := (bool_truth rc).1
      by_cases hc : qc ≠ 0
      · have : (c != 0) = true := by rw [ht]; simpa using hc
        simp only [this, if_true, hc, ne_eq, not_false_eq_true]
        exact ⟨_, rfl, ra⟩
      · have : (c != 0) = false := by rw [ht]; simpa using hc
        simp only [this, Bool.false_eq_true, if_false]
        rw [if_neg hc]
        exact ⟨_, rfl, rb⟩
    · cases hk
  all_goals cases hk

end FAVerif.Refine

namespace FAVerif.Refine
open FAVerif.IR FAVerif.FP FAVerif.FPQ FAVerif.SoftRound

variable {f : Fmt}

/-! ### whole programs -/

lemma evalNodes_prefix (lib : Libm) (ins : List Nat) :
    ∀ (nodes : List Node) (env envF : Array Nat), evalNodes f lib ins nodes env = some envF →
      env.size ≤ envF.size ∧ ∀ i, i < env.size → envF[i]? = env[i]? := by
  intro nodes
  induction nodes with
  | nil => intro env envF h; simp only [evalNodes, Option.some.injEq] at h; subst h; exact ⟨le_refl _, fun _ _ => rfl⟩
  | cons n ns ih =>
    intro env envF h
    simp only [evalNodes, Option.bind_eq_bind] at h
    cases hv : evalNode f lib ins env n with
    | none => simp [hv] at h
    | some v =>
      simp only [hv, Option.bind_some] at h
      obtain ⟨h1, h2⟩ := ih _ _ h
      simp only [Array.size_push] at h1 h2
      refine ⟨by omega, fun i hi => ?_⟩
      rw [h2 i (by omega), Array.getElem?_push_lt hi, Array.getElem?_eq_getElem hi]

lemma kindsOf_prefix : ∀ (nodes : List Node) (ks ksF : List Bool), kindsOf nodes ks = some ksF →
    ks.length ≤ ksF.length ∧ ∀ i, i < ks.length → ksF[i]? = ks[i]? := by
  intro nodes
  induction nodes with
  | nil => intro ks ksF h; simp only [kindsOf, Option.some.injEq] at h; subst h; exact ⟨le_refl _, fun _ _ => rfl⟩
  | cons n ns ih =>
    intro ks ksF h
    simp only [kindsOf, Option.bind_eq_bind] at h
    cases hk : kindStep ks n with
    | none => simp [hk] at h
    | some k =>
      simp only [hk, Option.bind_some] at h
      obtain ⟨h1, h2⟩ := ih _ _ h
      simp only [List.length_append, List.length_singleton] at h1 h2
      refine ⟨by omega, fun i hi => ?_⟩
      rw [h2 i (by omega), List.getElem?_append_left hi]

lemma inv_push {kinds : List Bool} {env : Array Nat} {envQ : List ℚ} (hinv : Inv f kinds env envQ) {k : Bool} {v : Nat} {q : ℚ}
    (h : Rv f k v q) : Inv f (kinds ++ [k]) (env.push v) (envQ ++ [q]) := by
  refine ⟨by simp [hinv.len1], by simp [hinv.len2], ?_⟩
  intro i k' hk'
  by_cases hi : i < kinds.length
  · rw [List.getElem?_append_left hi] at hk'
    obtain ⟨v0, q0, e1, e2, r⟩ := hinv.rel i k' hk'
    have hi1 : i < env.size := by rw [← hinv.len1]; exact hi
    have hi2 : i < envQ.length := by rw [hinv.len2]; exact hi1
    refine ⟨v0, q0, ?_, ?_, r⟩
    · rw [Array.getElem?_push_lt hi1]; rw [Array.getElem?_eq_getElem hi1] at e1; exact e1
    · rw [List.getElem?_append_left hi2]; exact e2
  · have hge : kinds.length ≤ i := by omega
    rw [List.getElem?_append_right hge] at hk'
    have hi0 : i - kinds.length = 0 := by
      by_contra hne
      have : 1 ≤ i - kinds.length := by omega
      rw [List.getElem?_eq_none (by simpa using this)] at hk'; cases hk'
    rw [hi0] at hk'
    simp only [List.getElem?_cons_zero, Option.some.injEq] at hk'
    subst hk'
    have hie : i = env.size := by have := hinv.len1; omega
    have hiq : i = envQ.length := by have := hinv.len2; omega
    refine ⟨v, q, ?_, ?_, h⟩
    · rw [hie]; simp
    · rw [hiq]; simp

/-- **Refinement, node lists.** -/
theorem sim (hf : WF f) (lib : Libm) (ins : List Nat) (insQ : List ℚ) (hins : InsRel f ins insQ) :
    ∀ (nodes : List Node) (kinds kindsF : List Bool) (env envF : Array Nat) (envQ : List ℚ),
      Inv f kinds env envQ → kindsOf nodes kinds = some kindsF → evalNodes f lib ins nodes env = some envF →
      (∀ (i : Nat) (v : Nat), envF[i]? = some v → kindsF[i]? = some false → isFiniteBits f v = true) →
      ∃ envQF, evalNodesQ f (rne (qf f hf.hp)) insQ nodes envQ = some envQF ∧ Inv f kindsF envF envQF := by
  intro nodes
  induction nodes with
  | nil =>
    intro kinds kindsF env envF envQ hinv hk he _
    simp only [kindsOf, Option.some.injEq] at hk
    simp only [evalNodes, Option.some.injEq] at he
    subst hk; subst he
    exact ⟨envQ, rfl, hinv⟩
  | cons n ns ih =>
    intro kinds kindsF env envF envQ hinv hk he hfin
    simp only [kindsOf, Option.bind_eq_bind] at hk
    simp only [evalNodes, Option.bind_eq_bind] at he
    cases hks : kindStep kinds n with
    | none => simp [hks] at hk
    | some k =>
      cases hv : evalNode f lib ins env n with
      | none => simp [hv] at he
      | some v =>
        simp only [hks, hv, Option.bind_some] at hk he
        -- the value of this node sits at index env.size of the final environment
        have hvF : envF[env.size]? = some v := by
          have := (evalNodes_prefix lib ins ns _ _ he).2 env.size (by simp)
          rw [this]; simp
        have hkF : kindsF[env.size]? = some k := by
          have := (kindsOf_prefix ns _ _ hk).2 kinds.length (by simp)
          rw [← hinv.len1, this]; simp
        have hfv : k = false → isFiniteBits f v = true := by
          intro hkf; subst hkf; exact hfin env.size v hvF hkF
        obtain ⟨q, hq, hr⟩ := step hf lib ins insQ hins kinds env envQ hinv n k hks v hv hfv
        obtain ⟨envQF, h1, h2⟩ := ih _ _ _ _ _ (inv_push hinv hr) hk he hfin
        refine ⟨envQF, ?_, h2⟩
        simp only [evalNodesQ, hq, Option.bind_eq_bind, Option.bind_some]
        exact h1

lemma mapM_rel {kinds : List Bool} {env : Array Nat} {envQ : List ℚ} (hinv : Inv f kinds env envQ) :
    ∀ (outs : List Nat) (vs : List Nat), outs.mapM (fun k => env[k]?) = some vs →
      ∃ qs, outs.mapM (fun k => envQ[k]?) = some qs ∧
        List.Forall₂ (fun (kv : Nat × Nat) (q : ℚ) => ∃ k, kinds[kv.1]? = some k ∧ Rv f k kv.2 q) (outs.zip vs) qs := by
  intro outs
  induction outs with
  | nil => intro vs h; simp at h; subst h; exact ⟨[], by simp, by simp⟩
  | cons j js ih =>
    intro vs h
    simp only [List.mapM_cons, Option.bind_eq_bind] at h
    cases hv : env[j]? with
    | none => simp [hv] at h
    | some v =>
      cases hr : js.mapM (fun k => env[k]?) with
      | none => simp [hv, hr] at h
      | some r =>
        simp [hv, hr] at h
        subst h
        obtain ⟨qs, hq, hall⟩ := ih r hr
        have hj : j < env.size := by
          by_contra hc; push Not at hc
          rw [Array.getElem?_eq_none hc] at hv; cases hv
        have hjk : j < kinds.length := by rw [hinv.len1]; exact hj
        obtain ⟨v0, q0, e1, e2, rr⟩ := hinv.rel j kinds[j] (List.getElem?_eq_getElem hjk)
        rw [hv] at e1; cases e1
        refine ⟨q0 :: qs, ?_, ?_⟩
        · simp only [List.mapM_cons, e2, hq, Option.bind_eq_bind, Option.bind_some]; rfl
        · simp only [List.zip_cons_cons]
          exact List.Forall₂.cons ⟨kinds[j], List.getElem?_eq_getElem hjk, rr⟩ hall

/-- **Refinement theorem for programs.**  If the bit-exact run of `p` on finite inputs is defined and
every float-kind node of the run is finite, then the ℚ-run with round-to-nearest-even on the values of
the inputs is defined, and every output pattern denotes the corresponding rational output (booleans
as 0/1). -/
theorem refines (p : Prog) (hf : WF p.fmt) (kinds : List Bool) (hk : kindsOf p.nodes [] = some kinds)
    (lib : Libm) (ins : List Nat) (insQ : List ℚ) (hins : InsRel p.fmt ins insQ) (env : Array Nat)
    (he : evalNodes p.fmt lib ins p.nodes #[] = some env)
    (hfin : ∀ (i : Nat) (v : Nat), env[i]? = some v → kinds[i]? = some false → isFiniteBits p.fmt v = true)
    (outs : List Nat) (ho : p.eval lib ins = some outs) :
    ∃ qs, p.evalQ (rne (qf p.fmt hf.hp)) insQ = some qs ∧
      List.Forall₂ (fun (kv : Nat × Nat) (q : ℚ) => ∃ k, kinds[kv.1]? = some k ∧ Rv p.fmt k kv.2 q) (p.outs.zip outs) qs := by
  have hinv0 : Inv p.fmt [] #[] [] := ⟨rfl, rfl, fun i k hk => by simp at hk⟩
  obtain ⟨envQ, h1, h2⟩ := sim hf lib ins insQ hins p.nodes [] kinds #[] env [] hinv0 hk he hfin
  unfold Prog.eval at ho
  simp only [he, Option.bind_eq_bind, Option.bind_some] at ho
  obtain ⟨qs, hq, hall⟩ := mapM_rel h2 p.outs outs ho
  refine ⟨qs, ?_, hall⟩
  unfold Prog.evalQ evalQ
  simp only [h1, Option.bind_eq_bind, Option.bind_some]
  exact hq

end FAVerif.Refine
