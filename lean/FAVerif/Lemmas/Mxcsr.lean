import FAVerif.Models.Mxcsr

namespace FAVerif.Mxcsr

/-- Invariant linking the register machine to the ghost stack of open contexts:
every open context holds the register value at its entry in `saved`; a context object is
open at most once; every context with a saved value is on the stack. -/
def Inv (s : State) (stk : Stack) : Prop :=
  (∀ p ∈ stk, ∃ c, s.ctxs[p.1]? = some c ∧ c.saved = some p.2) ∧
  (stk.map (·.1)).Nodup ∧
  (∀ i c, s.ctxs[i]? = some c → c.saved ≠ none → i ∈ stk.map (·.1))

def requestedBits (a : Args) : List Nat :=
  (if a.fz.isSome then [15] else []) ++ (if a.daz.isSome then [6] else []) ++
  (if a.rn.isSome then [13, 14] else [])

theorem inv_init (r : Reg) : Inv { reg := r, ctxs := [] } [] := by
  refine ⟨by simp, by simp, ?_⟩
  intro i c h; simp at h

theorem inv_create (s : State) (stk : Stack) (a : Args) (h : Inv s stk) :
    Inv (step s (.create a)).1 stk := by
  obtain ⟨h1, h2, h3⟩ := h
  refine ⟨?_, h2, ?_⟩
  · intro p hp
    obtain ⟨c, hc, hs⟩ := h1 p hp
    refine ⟨c, ?_, hs⟩
    simp only [step]
    have hlt : p.1 < s.ctxs.length := by
      rcases Nat.lt_or_ge p.1 s.ctxs.length with h | h
      · exact h
      · simp [List.getElem?_eq_none h] at hc
    rw [List.getElem?_append_left hlt]; exact hc
  · intro i c hc hs
    simp only [step] at hc
    rcases Nat.lt_or_ge i s.ctxs.length with hlt | hge
    · rw [List.getElem?_append_left hlt] at hc; exact h3 i c hc hs
    · rw [List.getElem?_append_right hge] at hc
      rcases Nat.eq_zero_or_pos (i - s.ctxs.length) with h0 | hpos
      · simp [h0] at hc; subst hc; simp at hs
      · have : ([({ args := a, saved := none } : CtxObj)])[i - s.ctxs.length]? = none := by
          apply List.getElem?_eq_none; simp; omega
        rw [this] at hc; cases hc

theorem inv_body (s : State) (stk : Stack) (f : Reg) (h : Inv s stk) :
    Inv (step s (.body f)).1 stk := by
  simpa [step, Inv] using h

theorem step_enter_ok (s : State) (i : Nat) (h : (step s (.enter i)).2 = .ok) :
    ∃ c, s.ctxs[i]? = some c ∧ c.saved = none ∧
      (step s (.enter i)).1 = { reg := desired s.reg c.args, ctxs := s.ctxs.set i { c with saved := some s.reg } } := by
  simp only [step] at h ⊢
  cases hc : s.ctxs[i]? with
  | none => simp [hc] at h
  | some c =>
    cases hs : c.saved with
    | some r => simp [hc, hs] at h
    | none => exact ⟨c, rfl, hs, by simp [hs]⟩

theorem step_enter_fail (s : State) (i : Nat) (h : (step s (.enter i)).2 ≠ .ok) :
    (step s (.enter i)).1 = s := by
  simp only [step] at h ⊢
  cases hc : s.ctxs[i]? with
  | none => simp
  | some c =>
    cases hs : c.saved with
    | some r => simp [hs]
    | none => simp [hc, hs] at h

theorem inv_enter (s : State) (stk : Stack) (i : Nat) (h : Inv s stk)
    (hok : (step s (.enter i)).2 = .ok) : Inv (step s (.enter i)).1 ((i, s.reg) :: stk) := by
  obtain ⟨c, hc, hs, heq⟩ := step_enter_ok s i hok
  obtain ⟨h1, h2, h3⟩ := h
  have hlt : i < s.ctxs.length := by
    rcases Nat.lt_or_ge i s.ctxs.length with h | h
    · exact h
    · simp [List.getElem?_eq_none h] at hc
  have hnotin : i ∉ stk.map (·.1) := by
    intro hin
    obtain ⟨p, hp, hpi⟩ := List.mem_map.1 hin
    obtain ⟨c', hc', hs'⟩ := h1 p hp
    rw [hpi, hc] at hc'; cases hc'; rw [hs] at hs'; cases hs'
  rw [heq]
  refine ⟨?_, ?_, ?_⟩
  · intro p hp
    rcases List.mem_cons.1 hp with rfl | hp
    · exact ⟨{ c with saved := some s.reg }, by simp [List.getElem?_set, hlt], rfl⟩
    · obtain ⟨c', hc', hs'⟩ := h1 p hp
      have hne : i ≠ p.1 := fun e => hnotin (e ▸ List.mem_map.2 ⟨p, hp, rfl⟩)
      exact ⟨c', by simp [List.getElem?_set, hne, hc'], hs'⟩
  · simpa [List.nodup_cons] using ⟨by simpa using hnotin, h2⟩
  · intro k c' hc' hs'
    by_cases hk : i = k
    · subst hk; simp
    · simp only [List.getElem?_set, hk, if_false] at hc'
      simp only [List.map_cons, List.mem_cons]
      exact Or.inr (h3 k c' hc' hs')

theorem inv_exit_top (s : State) (i : Nat) (r : Reg) (rest : Stack) (e : Bool)
    (h : Inv s ((i, r) :: rest)) :
    (step s (.exit i e)).2 = .ok ∧ (step s (.exit i e)).1.reg = r ∧ Inv (step s (.exit i e)).1 rest := by
  obtain ⟨h1, h2, h3⟩ := h
  obtain ⟨c, hc, hs⟩ := h1 (i, r) (List.mem_cons_self ..)
  have hlt : i < s.ctxs.length := by
    rcases Nat.lt_or_ge i s.ctxs.length with h | h
    · exact h
    · simp [List.getElem?_eq_none h] at hc
  simp only [List.map_cons, List.nodup_cons] at h2
  have hstep : step s (.exit i e) = ({ reg := r, ctxs := s.ctxs.set i { c with saved := none } }, .ok) := by
    simp at hc hs
    simp [step, hc, hs]
  rw [hstep]
  refine ⟨rfl, rfl, ?_, h2.2, ?_⟩
  · intro p hp
    obtain ⟨c', hc', hs'⟩ := h1 p (List.mem_cons_of_mem _ hp)
    have hne : i ≠ p.1 := fun e => h2.1 (e ▸ List.mem_map.2 ⟨p, hp, rfl⟩)
    exact ⟨c', by simp [List.getElem?_set, hne, hc'], hs'⟩
  · intro k c' hc' hs'
    by_cases hk : i = k
    · subst hk
      simp [List.getElem?_set, hlt] at hc'
      subst hc'; simp at hs'
    · simp only [List.getElem?_set, hk, if_false] at hc'
      have := h3 k c' hc' hs'
      simp only [List.map_cons, List.mem_cons] at this
      rcases this with rfl | this
      · exact absurd rfl hk
      · exact this

theorem exec_restores (ops : List Op) : ∀ (s : State) (stk : Stack) (s' : State) (stk' : Stack)
    (obs : List (Reg × Reg)), Inv s stk → exec s stk ops = some (s', stk', obs) →
    (∀ p ∈ obs, p.1 = p.2) ∧ Inv s' stk' := by
  induction ops with
  | nil =>
    intro s stk s' stk' obs hinv h
    simp [exec] at h
    obtain ⟨rfl, rfl, rfl⟩ := h
    exact ⟨by simp, hinv⟩
  | cons op ops ih =>
    intro s stk s' stk' obs hinv h
    cases op with
    | create a => exact ih _ _ _ _ _ (inv_create s stk a hinv) (by simpa [exec] using h)
    | body f => exact ih _ _ _ _ _ (inv_body s stk f hinv) (by simpa [exec] using h)
    | enter i =>
      simp only [exec] at h
      by_cases hok : (step s (.enter i)).2 = .ok
      · simp only [hok, if_true] at h
        exact ih _ _ _ _ _ (inv_enter s stk i hinv hok) h
      · simp only [hok, if_false] at h
        rw [step_enter_fail s i hok] at h
        exact ih _ _ _ _ _ hinv h
    | exit i e =>
      cases stk with
      | nil => simp [exec] at h
      | cons top rest =>
        obtain ⟨j, r⟩ := top
        simp only [exec] at h
        by_cases hij : i = j
        · subst hij
          simp only [if_true] at h
          obtain ⟨_, hreg, hinv'⟩ := inv_exit_top s i r rest e hinv
          cases hrec : exec (step s (.exit i e)).1 rest ops with
          | none => simp [hrec] at h
          | some res =>
            obtain ⟨s'', stk'', obs''⟩ := res
            simp only [hrec] at h
            cases h
            obtain ⟨hobs, hfin⟩ := ih _ _ _ _ _ hinv' hrec
            refine ⟨?_, hfin⟩
            intro p hp
            rcases List.mem_cons.1 hp with rfl | hp
            · exact hreg.symm
            · exact hobs p hp
        · simp [hij] at h

/-- `exec` never looks below the frames it pushed itself. -/
theorem exec_frame (ops : List Op) : ∀ (s : State) (stk base : Stack) (res : State × Stack × List (Reg × Reg)),
    exec s stk ops = some res → exec s (stk ++ base) ops = some (res.1, res.2.1 ++ base, res.2.2) := by
  induction ops with
  | nil => intro s stk base res h; simp only [exec] at h ⊢; cases h; rfl
  | cons op ops ih =>
    intro s stk base res h
    cases op with
    | create a => simp only [exec] at h ⊢; exact ih _ _ _ _ h
    | body f => simp only [exec] at h ⊢; exact ih _ _ _ _ h
    | enter i =>
      simp only [exec] at h ⊢
      by_cases hok : (step s (.enter i)).2 = .ok
      · simp only [hok, if_true] at h ⊢
        exact ih _ ((i, s.reg) :: stk) base _ h
      · simp only [hok, if_false] at h ⊢
        exact ih _ _ _ _ h
    | exit i e =>
      cases stk with
      | nil => simp [exec] at h
      | cons top rest =>
        obtain ⟨j, r⟩ := top
        simp only [List.cons_append, exec] at h ⊢
        by_cases hij : i = j
        · simp only [hij, if_true] at h ⊢
          cases hrec : exec (step s (.exit j e)).1 rest ops with
          | none => simp [hrec] at h
          | some r' =>
            simp only [hrec] at h
            cases h
            simp [ih _ _ base _ hrec]
        · simp [hij] at h

theorem exec_append (a b : List Op) : ∀ (s : State) (stk : Stack) (r : State × Stack × List (Reg × Reg)),
    exec s stk a = some r →
    exec s stk (a ++ b) = (exec r.1 r.2.1 b).map (fun q => (q.1, q.2.1, r.2.2 ++ q.2.2)) := by
  induction a with
  | nil =>
    intro s stk r h; simp [exec] at h; subst h
    cases h' : exec s stk b <;> simp [h']
  | cons op ops ih =>
    intro s stk r h
    cases op with
    | create x => simp only [List.cons_append, exec] at h ⊢; exact ih _ _ _ h
    | body f => simp only [List.cons_append, exec] at h ⊢; exact ih _ _ _ h
    | enter i => simp only [List.cons_append, exec] at h ⊢; exact ih _ _ _ h
    | exit i e =>
      cases stk with
      | nil => simp [exec] at h
      | cons top rest =>
        obtain ⟨j, rr⟩ := top
        simp only [List.cons_append, exec] at h ⊢
        by_cases hij : i = j
        · simp only [hij, if_true] at h ⊢
          cases hrec : exec (step s (.exit j e)).1 rest ops with
          | none => simp [hrec] at h
          | some r' =>
            simp only [hrec] at h
            cases h
            have ih' := ih _ _ r' hrec
            rw [ih']
            cases exec r'.1 r'.2.1 b <;> simp
        · simp [hij] at h

/-- The state component of `exec` is the plain run. -/
theorem exec_state (ops : List Op) : ∀ (s : State) (stk : Stack) (r : State × Stack × List (Reg × Reg)),
    exec s stk ops = some r → r.1 = run s ops := by
  induction ops with
  | nil => intro s stk r h; simp [exec] at h; subst h; rfl
  | cons op ops ih =>
    intro s stk r h
    have hrun : run s (op :: ops) = run (step s op).1 ops := rfl
    rw [hrun]
    cases op with
    | create x => simp only [exec] at h; exact ih _ _ _ h
    | body f => simp only [exec] at h; exact ih _ _ _ h
    | enter i => simp only [exec] at h; exact ih _ _ _ h
    | exit i e =>
      cases stk with
      | nil => simp [exec] at h
      | cons top rest =>
        obtain ⟨j, rr⟩ := top
        simp only [exec] at h
        by_cases hij : i = j
        · simp only [hij, if_true] at h
          cases hrec : exec (step s (.exit j e)).1 rest ops with
          | none => simp [hrec] at h
          | some r' =>
            simp only [hrec] at h
            cases h
            subst hij
            exact ih _ _ r' hrec
        · simp [hij] at h

/-- `with ctx_i: mid` where `mid` is itself well nested: register after = register before. -/
theorem block_restores (s : State) (i : Nat) (e : Bool) (mid : List Op)
    (t : State) (obs : List (Reg × Reg)) (hinv : Inv s [])
    (hent : (step s (.enter i)).2 = .ok)
    (hmid : exec (step s (.enter i)).1 [] mid = some (t, [], obs)) :
    (run s (.enter i :: mid ++ [.exit i e])).reg = s.reg := by
  have hinv1 := inv_enter s [] i hinv hent
  have hfr := exec_frame mid _ [] [(i, s.reg)] _ hmid
  simp only [List.nil_append] at hfr
  obtain ⟨_, hinvt⟩ := exec_restores mid _ _ _ _ _ hinv1 hfr
  obtain ⟨_, hreg, _⟩ := inv_exit_top t i s.reg [] e hinvt
  have ht : t = run (step s (.enter i)).1 mid := exec_state mid _ _ _ hmid
  have : run s (.enter i :: mid ++ [.exit i e]) = (step t (.exit i e)).1 := by
    simp only [run, List.foldl_cons, List.foldl_append, List.foldl_nil] at ht ⊢
    rw [← ht]
  rw [this]; exact hreg

theorem enter_ok_iff' (s : State) (stk : Stack) (i : Nat) (hinv : Inv s stk) :
    (step s (.enter i)).2 = .ok ↔ (i < s.ctxs.length ∧ i ∉ stk.map (·.1)) := by
  constructor
  · intro hok
    obtain ⟨c, hc, hs, _⟩ := step_enter_ok s i hok
    have hlt : i < s.ctxs.length := by
      rcases Nat.lt_or_ge i s.ctxs.length with h | h
      · exact h
      · simp [List.getElem?_eq_none h] at hc
    refine ⟨hlt, ?_⟩
    intro hin
    obtain ⟨p, hp, hpi⟩ := List.mem_map.1 hin
    obtain ⟨c', hc', hs'⟩ := hinv.1 p hp
    rw [hpi, hc] at hc'; cases hc'; rw [hs] at hs'; cases hs'
  · intro ⟨hlt, hnot⟩
    have hc : s.ctxs[i]? = some s.ctxs[i] := List.getElem?_eq_getElem hlt
    cases hs : (s.ctxs[i]).saved with
    | none => simp [step, hc, hs]
    | some r => exact absurd (hinv.2.2 i _ hc (by simp [hs])) hnot

theorem getLsbD_setBit (v : Reg) (i : Nat) (b : Bool) (j : Nat) (hi : i < 32) :
    (setBit v i b).getLsbD j = if j = i then b else v.getLsbD j := by
  unfold setBit
  by_cases hj : j = i
  · subst hj
    cases b <;> simp [BitVec.getLsbD_shiftLeft, hi]
  · cases b
    · simp only [Bool.false_eq_true, if_false, hj, BitVec.getLsbD_and, BitVec.getLsbD_not,
        BitVec.getLsbD_shiftLeft, BitVec.getLsbD_one]
      by_cases hj32 : j < 32
      · have : ¬ (j - i = 0 ∧ ¬ j < i) := by omega
        by_cases hji : j < i <;> simp [hj32, hji] <;> omega
      · simp [hj32, BitVec.getLsbD_of_ge v j (by omega)]
    · simp only [if_true, hj, if_false, BitVec.getLsbD_or, BitVec.getLsbD_shiftLeft, BitVec.getLsbD_one]
      by_cases hji : j < i
      · simp [hji]
      · have : j - i ≠ 0 := by omega
        simp [this]

theorem desired_spec (cur : Reg) (a : Args) (j : Nat) :
    (j ∉ requestedBits a → (desired cur a).getLsbD j = cur.getLsbD j) ∧
    (∀ b, a.fz = some b → (desired cur a).getLsbD 15 = b) ∧
    (∀ b, a.daz = some b → (desired cur a).getLsbD 6 = b) ∧
    (∀ r, a.rn = some r → (desired cur a).getLsbD 14 = r.hi ∧ (desired cur a).getLsbD 13 = r.lo) := by
  obtain ⟨fz, daz, rn⟩ := a
  refine ⟨?_, ?_, ?_, ?_⟩
  · cases fz <;> cases daz <;> cases rn <;>
      simp only [desired, requestedBits, getLsbD_setBit, Option.isSome_none, Option.isSome_some,
        List.append_nil, List.nil_append, List.mem_cons, List.mem_append, List.not_mem_nil, or_false,
        not_or, not_false_eq_true, implies_true, if_true, if_false, Bool.false_eq_true,
        List.cons_append, Nat.lt_add_one, Nat.reduceLT] <;>
      intro h <;> simp [h]
  · intro b hb; simp only at hb; subst hb
    cases daz <;> cases rn <;> simp only [desired, getLsbD_setBit, Nat.reduceLT] <;> simp
  · intro b hb; simp only at hb; subst hb
    cases fz <;> cases rn <;> simp only [desired, getLsbD_setBit, Nat.reduceLT] <;> simp
  · intro r hr; simp only at hr; subst hr
    cases fz <;> cases daz <;> simp only [desired, getLsbD_setBit, Nat.reduceLT] <;> simp

theorem fresh_enter' (s : State) (a : Args) :
    (run s [.create a, .enter s.ctxs.length]).reg = desired s.reg a := by
  simp [run, step]

end FAVerif.Mxcsr
